#!/usr/bin/env python3
"""Regenerate /verif/MANIFEST.json from the table below (kept next to the checks so it stays current)."""
import json, os
ROOT = os.path.dirname(os.path.dirname(os.path.abspath(__file__)))
T = {
 "C01": ("random characters / random token lists / grammar-generated expressions and their one-token mutations, plus exhaustive 1-, 2- (thorough: 3-) token sequences, judged by an independent token-level recogniser of CEL.g4 and position/rendering checks; libFuzzer target c01_compile in the thorough tier",
         "property-based testing + exhaustive small-scope enumeration + coverage-guided fuzzing against a reference recogniser"),
 "C02": ("untyped grammar-generated programs against generated extreme contexts and host functions; exhaustive boundary-value pairs through the operator traits; every built-in on every boundary value; worker processes supervised for aborts; libFuzzer target c02_exec in the thorough tier",
         "property-based testing / fuzzing for crash-freedom (no panic, no abort) with process-level abort detection"),
 "C03": ("type-directed generator of well-typed programs (depth <= 6) compared with an independent reference evaluator (values type-exact, errors by class) plus a guarded-conditional metamorphic relation",
         "differential property-based testing against a reference evaluator"),
 "C04": ("AST round trip: trees rendered fully / minimally parenthesised (precedence table independent of the parser) must parse back to the tree they came from; exhaustive over all trees with <= 2 (thorough <= 3) operators, all && / || chains up to 64, all prefix runs up to 6; random trees of depth <= 7",
         "round-trip property-based testing + exhaustive small-scope enumeration"),
 "C05": ("model-based histories (<= 50 executions with kept results and snapshots, deep-copy oracle and reference semantics after every step; 20-60 distinct tiny programs executed 60-200 times) and a generated multi-thread stress over shared programs and a shared root context; a compile-time Send + Sync guard crate",
         "stateful (model-based) property-based testing + seeded thread-stress exploration"),
 "C06": ("every &&/||/?: tree to depth 2 over boolean constants, error raisers and logging host calls (exhaustive), random to depth 4, bare and inside macro bodies; the exact ordered host-call log must equal the reference evaluator's",
         "exhaustive small-scope enumeration + property-based testing against a call-log oracle"),
 "C07": ("well-typed programs of depth <= 10 whose subterms are wrapped by logging host functions of every call shape; nested one-argument chains of depth 1-10; ordered host-call log and invocation count must equal the reference evaluator's",
         "property-based testing against an evaluation-order / invocation-count oracle"),
 "C08": ("all ordered pairs of 60-element i64 and u64 boundary sets under + - * / % in three spellings, unary minus, type mixtures (exhaustive); random uniform / log-uniform pairs; oracle = i128 arithmetic + range test, plus (a/b)*b + a%b == a evaluated as a program",
         "exhaustive boundary sweeps + property-based testing against an arbitrary-precision oracle"),
 "C09": ("all pairs and triples of a ~90-value boundary set through Value::eq / partial_cmp and all pairs through programs under the six relations and `in`; exact reference comparison plus the order laws checked without the reference; min/max over comparable subsets",
         "exhaustive small-scope enumeration + algebraic-law property-based testing"),
 "C10": ("all seven macro forms over every list of length 0-6 from a 4-value alphabet with pure, error-raising and table-driven logging bodies (exhaustive), random long lists, maps and two-deep nestings; oracle = explicit folds and the exact visit sequence",
         "exhaustive small-scope enumeration + property-based testing against fold definitions"),
 "C11": ("all well-nested context histories up to length 6 (thorough 7) over 3 names and 3 scope levels checked after every step against a stack-of-maps model; 25 nested-macro templates x 27 name assignments x 8 context subsets; one compiled program against every sequence of three contexts; random typed programs reusing context names",
         "stateful (model-based) property-based testing, exhaustive for short histories"),
 "C12": ("every single escape in every cooked spelling (exhaustive, \\u sweep stride-sampled in quick), invalid escapes, random strings / byte sequences rendered in every spelling that can spell them with per-character verbatim/escape choices; round trip to the intended value",
         "round-trip property-based testing + exhaustive escape sweeps"),
 "C13": ("boundary and random 64-bit patterns rendered in every literal form (decimal, hex, signed, exact dyadic decimals for doubles); conversions int/uint/double/string/bytes over boundary sets with exact range oracles; string round trips",
         "property-based testing against exact integer / dyadic oracles"),
 "C14": ("every map with <= 4 distinct keys over a 12-key alphabet queried five ways with every key and its int/uint twin; every list of length <= 5 with every index; algebraic laws of size / + / startsWith / endsWith / contains / in on random operands",
         "exhaustive small-scope enumeration + metamorphic property-based testing"),
 "C15": ("boundary and log-uniform random durations against an independent Go-style formatter and exact integer parser; malformed strings from a mutation grammar must be rejected; exact arithmetic and comparison on nanosecond counts with range errors",
         "property-based testing against an independent reference implementation + round trip"),
 "C16": ("boundary dates x times x offsets (exhaustive) and random instants against an independent proleptic-Gregorian calendar and RFC 3339 reader/writer; accessor origins; round trip; instant ordering; t+d-d / (t+d)-t laws",
         "property-based testing against an independent calendar oracle + round trip / algebraic laws"),
 "C17": ("a hand-written Serialize that can call every Serializer method (depth <= 5, boundary-biased scalars) compared with a shape model; commutation with serde_json; every serde_json document round trips",
         "property-based testing against a shape model + differential testing with serde_json"),
 "C18": ("generated values of every variant (functions nested anywhere, durations on both sides of 2^63 ns, NaN/inf, colliding key texts) against a JSON shape model with own base64 and RFC 3339 reader; error iff excluded value; import round trip",
         "property-based testing against a shape model + round trip"),
 "C19": ("untyped programs over 12-name pools in every syntactic position executed against partial and complete contexts; undeclared names must be reported, complete contexts never yield UndeclaredReference, reported variables are written identifiers, report independent of execution",
         "property-based testing of a soundness/completeness relation between references() and execution"),
 "C20": ("every receiver-style built-in x receivers/arguments of every kind in both call styles (equal results); ~40 logging host closures of arity 0-9 over every parameter type and extractor called with 0..arity+2 arguments of matching and mismatching kinds against a binding model; overriding built-ins",
         "property-based testing against a binding model + call-style differential"),
}
def main():
    props = [json.loads(l) for l in open(os.path.join(ROOT, "properties.jsonl"))]
    done = [l.strip() for l in open(os.path.join(ROOT, "tools", "claimed.txt")) if l.strip()]
    checks, na = [], []
    for p in props:
        i = p["id"]
        if i in done:
            text, tech = T[i]
            checks.append({
                "property_id": i,
                "quick_cmd": f"./check {i} --tier quick",
                "thorough_cmd": f"./check {i} --tier thorough",
                "evidence_file": f"/verif/evidence/{i}.json",
                "replay_cmd_template": f"./check {i} --replay {{path}}",
                "engine": "verif-harness",
                "level_claimed": {"category": "exploration", "text": text, "design_ref": f"DESIGN.md §5 {i}"},
                "level_note": "explores the stated finite sub-domains exhaustively and samples the rest with seeded generators; establishes nothing outside what was explored. Trusted base: the harness' own reference models (self-tested against golden vectors at every run), rustc, proptest.",
                "technique": tech,
            })
        else:
            na.append({"property_id": i, "reason": "check under construction in this session (DESIGN.md §5); claimed once implemented"})
    m = {"version": 1,
         "setup_cmd": "cd /verif/harness && CARGO_NET_OFFLINE=true cargo build --release --offline && (test ! -d sendsync || (cd sendsync && CARGO_NET_OFFLINE=true cargo build --release --offline))",
         "hooks": {"guard": "clarkmcc_cel_rust_verif", "enable": "no hooks are needed: every observation point is public API (DESIGN.md §2.5); checks build /repo's working tree as a path dependency", "baseline_off_cmd": "cd /repo && cargo test --workspace --no-fail-fast --offline", "source_commits": [], "add_only": True},
         "engines": [{"name": "verif-harness", "path": "/verif/harness", "serves_properties": done, "kind_free_text": "Rust binary: proptest-driven choice-sequence generators with shrinking, exhaustive sweeps, reference models, 16 supervised worker processes; cargo-fuzz targets under /verif/fuzz"}],
         "checks": checks,
         "notes": "See DESIGN.md. Exit codes: 0 held (KNOWN-FINDING lines possible), 1 VIOLATION, 2 inconclusive (build failure / harness defect / watchdog). Genuine defects repaired in /repo are listed in known_findings.json as fixed; three defects in literal decoding (C12) are recorded as known (pinned by unit tests or located in the third-party lexer runtime)."}
    if na:
        m["not_applicable"] = na
    json.dump(m, open(os.path.join(ROOT, "MANIFEST.json"), "w"), indent=1)
main()
