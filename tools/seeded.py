#!/usr/bin/env python3
"""Seeded-defect bookkeeping.
  import  <ID>            copy /tmp/wt-<ID>/SEEDED/k -> /verif/seeded/<ID>-k/
  confirm <ID>-k          in the scratch worktree /tmp/wt-<ID>: suite green with the patch, demo fails with / passes without
  detect  <ID>-k [prop]   apply to /repo, run ./check <prop> (quick), restore; records the outcome in meta.json
  table                   print the catches table
"""
import json, os, shutil, subprocess, sys, re
ROOT = "/verif/seeded"
def sh(cmd, cwd=None, timeout=3600):
    return subprocess.run(cmd, shell=True, cwd=cwd, capture_output=True, text=True, timeout=timeout)
def meta_path(n): return f"{ROOT}/{n}/meta.json"
def load(n):
    p = meta_path(n)
    return json.load(open(p)) if os.path.exists(p) else {}
def save(n, m): json.dump(m, open(meta_path(n), "w"), indent=1)

def do_import(pid, offset=0):
    src = f"/tmp/wt-{pid}/SEEDED"
    for k0 in sorted(x for x in os.listdir(src) if x.isdigit()):
        k = str(int(k0) + offset)
        d = f"{ROOT}/{pid}-{k}"
        os.makedirs(d, exist_ok=True)
        for f in ("patch.diff", "demo.rs", "notes.md"):
            if os.path.exists(f"{src}/{k0}/{f}"):
                shutil.copy(f"{src}/{k0}/{f}", f"{d}/{f}")
        m = load(f"{pid}-{k}")
        m.setdefault("property", pid)
        m.setdefault("origin", "independent sub-agent given only the property text and a scratch worktree")
        notes = open(f"{d}/notes.md").read() if os.path.exists(f"{d}/notes.md") else ""
        m["needs_to_manifest"] = first_paragraphs(f"{d}/notes.md") or "see notes.md"
        save(f"{pid}-{k}", m)
        print("imported", f"{pid}-{k}")

def do_confirm(name):
    pid = name.split("-")[0]
    wt = f"/tmp/wt-{pid}"
    d = f"{ROOT}/{name}"
    m = load(name)
    feat = "--features json" if pid == "C18" or "json()" in open(f"{d}/demo.rs").read() else ""
    sh("git checkout -- . && git clean -fdq -e SEEDED -e PROPERTY.md -e target", cwd=wt)
    r = sh(f"git apply {d}/patch.diff", cwd=wt)
    if r.returncode != 0:
        m["confirmed"] = False; m["confirm_note"] = "patch does not apply: " + r.stderr[:300]; save(name, m); print(name, "PATCH-FAILS"); return
    shutil.copy(f"{d}/demo.rs", f"{wt}/interpreter/tests/demo.rs") if os.path.isdir(f"{wt}/interpreter/tests") else (os.makedirs(f"{wt}/interpreter/tests"), shutil.copy(f"{d}/demo.rs", f"{wt}/interpreter/tests/demo.rs"))
    demo_with = sh(f"CARGO_NET_OFFLINE=true cargo test -p cel-interpreter {feat} --test demo --offline 2>&1 | tail -5", cwd=wt)
    os.remove(f"{wt}/interpreter/tests/demo.rs")
    suite = sh("CARGO_NET_OFFLINE=true cargo test --workspace --no-fail-fast --offline 2>&1 | grep -E '^test result' ", cwd=wt)
    passed = sum(int(x) for x in re.findall(r"(\d+) passed", suite.stdout)); failed = sum(int(x) for x in re.findall(r"(\d+) failed", suite.stdout))
    sh("git checkout -- .", cwd=wt)
    shutil.copy(f"{d}/demo.rs", f"{wt}/interpreter/tests/demo.rs")
    demo_without = sh(f"CARGO_NET_OFFLINE=true cargo test -p cel-interpreter {feat} --test demo --offline 2>&1 | tail -5", cwd=wt)
    os.remove(f"{wt}/interpreter/tests/demo.rs")
    sh("git checkout -- . && git clean -fdq -e SEEDED -e PROPERTY.md -e target", cwd=wt)
    ok_with = "test result: FAILED" in demo_with.stdout or "panicked" in demo_with.stdout or "error: test failed" in demo_with.stdout
    ok_without = "test result: ok" in demo_without.stdout
    m["confirmed"] = bool(ok_with and ok_without and failed == 0 and passed >= 67)
    m["what_i_ran"] = {"suite_with_patch": f"{passed} passed, {failed} failed (cargo test --workspace --no-fail-fast --offline)",
                       "demo_with_patch": "fails" if ok_with else "DOES NOT FAIL", "demo_without_patch": "passes" if ok_without else "DOES NOT PASS",
                       "where": f"scratch worktree {wt} (removed afterwards)"}
    save(name, m)
    print(name, "CONFIRMED" if m["confirmed"] else "NOT-CONFIRMED", m["what_i_ran"])

def do_detect(name, prop=None):
    m = load(name)
    prop = prop or m.get("property")
    d = f"{ROOT}/{name}"
    assert sh("git status --porcelain", cwd="/repo").stdout.strip() == "", "/repo is dirty"
    r = sh(f"git apply {d}/patch.diff", cwd="/repo")
    if r.returncode != 0:
        print(name, "patch does not apply to /repo:", r.stderr[:200]); return
    try:
        out = sh(f"./check {prop} --tier quick 2>&1", cwd="/verif", timeout=1800)
    finally:
        sh("git checkout -- .", cwd="/repo")
    lines = out.stdout.splitlines()
    viol = [l for l in lines if l.startswith("VIOLATION")]
    detail = ""
    for i, l in enumerate(lines):
        if l.startswith("VIOLATION") and i + 1 < len(lines):
            detail = lines[i + 1].strip()[:300]; break
    # keep the (shrunk) failing cases next to the seed: they become regression inputs
    kept = []
    for l in viol:
        mm = re.search(r"replay=(\S+)", l)
        if mm and os.path.exists(mm.group(1)) and mm.group(1).endswith(".json"):
            dst = f"{d}/replay-{prop}-{os.path.basename(mm.group(1))}"
            shutil.copy(mm.group(1), dst); kept.append(os.path.basename(dst))
    res = {"exit": out.returncode, "violations": len(viol), "first": detail, "replays": kept}
    m.setdefault("detected_by", {})[prop] = res
    save(name, m)
    print(name, prop, "exit", out.returncode, "violations", len(viol), "|", detail[:160])

def first_paragraphs(path, n=600):
    try:
        t = open(path).read()
    except Exception:
        return ""
    lines = [l.strip() for l in t.splitlines() if l.strip() and not l.startswith("#") and not l.startswith("```")]
    return " ".join(lines)[:n]

def markdown():
    """the catches table for DESIGN.md section 8"""
    out = ["| seeded change | what it does | file(s) | caught by (quick tier) | first report |", "|---|---|---|---|---|"]
    for n in sorted(os.listdir(ROOT)):
        m = load(n)
        d = f"{ROOT}/{n}"
        files = sorted(set(re.findall(r"^\+\+\+ b/(\S+)", open(f"{d}/patch.diff").read(), re.M)))
        det = m.get("detected_by", {})
        caught = ", ".join(f"{k}" for k, v in det.items() if v["exit"] == 1) or "—"
        first = next((v["first"] for v in det.values() if v["exit"] == 1), "")
        first = first.replace("|", "\\|")[:150]
        title = ""
        try:
            for l in open(f"{d}/notes.md"):
                if l.startswith("#"):
                    title = re.sub(r"^#+\s*", "", l).strip()
                    title = re.sub(r"^(Seeded|C\d\d seeded) (defect|change)[^—–:-]*(—|–|--|-|:)\s*", "", title)
                    break
        except Exception:
            pass
        title = title.replace("|", "\\|")[:140]
        out.append(f"| {n} | {title} | {', '.join(f.split('/')[-1] for f in files)} | {caught} | {first} |")
    return "\n".join(out)

def table():
    for n in sorted(os.listdir(ROOT)):
        m = load(n)
        det = m.get("detected_by", {})
        print(n, "confirmed" if m.get("confirmed") else "unconfirmed", {k: ("CAUGHT" if v["exit"] == 1 else f"exit{v['exit']}") for k, v in det.items()})

if __name__ == "__main__":
    cmd = sys.argv[1]
    if cmd == "import": do_import(sys.argv[2], int(sys.argv[3]) if len(sys.argv) > 3 else 0)
    elif cmd == "confirm": do_confirm(sys.argv[2])
    elif cmd == "detect": do_detect(sys.argv[2], sys.argv[3] if len(sys.argv) > 3 else None)
    elif cmd == "table": table()
    elif cmd == "markdown": print(markdown())
