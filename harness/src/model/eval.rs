//! Reference evaluator (DESIGN §4).  Written from the CEL semantics as this implementation
//! documents them and as the properties restate them; it shares no code with the interpreter.
//!
//! `Err(Stop::Unsupported(..))` means the model deliberately makes no prediction for this
//! construct ("deliberately not asserted" corners); callers skip such cases.

use super::expr::{Mac, Op, E};
use super::num::{cmp_int_f64, nearest_f64};
use super::{ErrClass, V};
use std::cmp::Ordering;

#[derive(Clone, Debug, PartialEq)]
pub enum Stop {
    Err(ErrClass),
    Unsupported(&'static str),
}

pub type Res = Result<V, Stop>;

fn other() -> Stop {
    Stop::Err(ErrClass::Other)
}
fn unsup(s: &'static str) -> Stop {
    Stop::Unsupported(s)
}

pub const BUILTINS: [&str; 24] = [
    "contains", "size", "max", "min", "startsWith", "endsWith", "string", "bytes", "double", "int", "uint", "matches", "duration", "timestamp", "getFullYear", "getMonth", "getDayOfYear", "getDayOfMonth",
    "getDate", "getDayOfWeek", "getHours", "getMinutes", "getSeconds", "getMilliseconds",
];
pub const HOST_FUNCS: [&str; 20] = ["t", "fail", "fail1", "h0", "h1", "h2", "h3", "h4", "m0", "m1", "m2", "m3", "va", "q", "q2", "idf", "tf", "noop", "thisopt", "peek"];

/// table for the table-driven host predicate/transformer `q(x)`: result per argument, `None` = raise an error
pub type Table = Vec<(V, Option<V>)>;

pub struct St {
    /// scope chain, innermost last
    pub scopes: Vec<Vec<(String, V)>>,
    pub log: Vec<String>,
    pub table: Table,
    /// host functions (t, h*, m*, q, …) are registered
    pub host: bool,
    /// built-ins are registered (Context::default())
    pub builtins: bool,
    /// number of host-function bodies run
    pub calls: u64,
    /// short-circuit or conditional skipped an operand at least once
    pub skipped_operand: bool,
    pub macro_iterations: u64,
    /// map entries are already in the order the implementation iterates them (C10 reads it off the log)
    pub map_order_known: bool,
    /// variant semantics: exists_one may stop once two elements have satisfied the body (the statement only fixes
    /// the result; whether elements after the second hit are visited is not asserted)
    pub exists_one_stops_at_two: bool,
    /// extra zero-argument host functions returning a constant (C11: functions named like variables)
    pub const_funcs: Vec<(String, V)>,
}

impl St {
    pub fn new(vars: &[(String, V)], table: Table) -> St {
        St { scopes: vec![vars.to_vec()], log: vec![], table, host: true, builtins: true, calls: 0, skipped_operand: false, macro_iterations: 0, map_order_known: false, exists_one_stops_at_two: false, const_funcs: vec![] }
    }
    fn lookup(&self, n: &str) -> Option<&V> {
        for s in self.scopes.iter().rev() {
            // later definitions in the same scope win
            if let Some((_, v)) = s.iter().rev().find(|(k, _)| k == n) {
                return Some(v);
            }
        }
        None
    }
    pub fn has_function(&self, n: &str) -> bool {
        (self.builtins && BUILTINS.contains(&n)) || (self.host && HOST_FUNCS.contains(&n)) || self.const_funcs.iter().any(|(k, _)| k == n)
    }
}

pub fn truthy_bool(v: &V) -> Result<bool, Stop> {
    match v {
        V::Bool(b) => Ok(*b),
        _ => Err(unsup("truthiness of a non-bool")),
    }
}

/// exact numeric comparison across int / uint / double; None = unordered (NaN)
pub fn num_cmp(a: &V, b: &V) -> Option<Option<Ordering>> {
    let as_big = |v: &V| match v {
        V::Int(i) => Some(*i as i128),
        V::UInt(u) => Some(*u as i128),
        _ => None,
    };
    Some(match (a, b) {
        (V::Float(x), V::Float(y)) => x.0.partial_cmp(&y.0),
        (V::Float(x), _) => cmp_int_f64(as_big(b)?, x.0).map(|o| o.reverse()),
        (_, V::Float(y)) => cmp_int_f64(as_big(a)?, y.0),
        _ => Some(as_big(a)?.cmp(&as_big(b)?)),
    })
}

pub fn is_num(v: &V) -> bool {
    matches!(v, V::Int(_) | V::UInt(_) | V::Float(_))
}

/// CEL `==` as specified: numbers by value across types, NaN unequal to everything, containers
/// element-wise, unrelated kinds unequal.
pub fn cel_eq(a: &V, b: &V) -> Result<bool, Stop> {
    if is_num(a) && is_num(b) {
        return Ok(num_cmp(a, b).unwrap() == Some(Ordering::Equal));
    }
    Ok(match (a, b) {
        (V::Null, V::Null) => true,
        (V::Bool(x), V::Bool(y)) => x == y,
        (V::Str(x), V::Str(y)) => x == y,
        (V::Bytes(x), V::Bytes(y)) => x == y,
        (V::Dur(..), V::Dur(..)) => a.dur_total_ns() == b.dur_total_ns(),
        (V::Ts(..), V::Ts(..)) => a.ts_total_ns() == b.ts_total_ns(),
        (V::List(x), V::List(y)) => {
            if x.len() != y.len() {
                false
            } else {
                let mut all = true;
                for (p, q) in x.iter().zip(y) {
                    if !cel_eq(p, q)? {
                        all = false;
                    }
                }
                all
            }
        }
        (V::Map(x), V::Map(y)) => {
            // keys differing only in int/uint type: not asserted
            for (k, _) in x {
                if is_num(k) && y.iter().any(|(k2, _)| is_num(k2) && k.kind() != k2.kind() && num_cmp(k, k2).unwrap() == Some(Ordering::Equal)) {
                    return Err(unsup("map equality with int/uint twin keys"));
                }
            }
            if x.len() != y.len() {
                false
            } else {
                let mut all = true;
                for (k, v) in x {
                    match y.iter().find(|(k2, _)| super::same(k, k2)) {
                        None => all = false,
                        Some((_, v2)) => {
                            if !cel_eq(v, v2)? {
                                all = false;
                            }
                        }
                    }
                }
                all
            }
        }
        (V::Func(..), _) | (_, V::Func(..)) => return Err(unsup("function value equality")),
        _ => false,
    })
}

/// ordering where the implementation and the statement define one; Err(Other) for unrelated kinds
pub fn cel_cmp(a: &V, b: &V) -> Result<Ordering, Stop> {
    if is_num(a) && is_num(b) {
        return match num_cmp(a, b).unwrap() {
            Some(o) => Ok(o),
            None => Err(unsup("ordering with NaN")),
        };
    }
    match (a, b) {
        (V::Str(x), V::Str(y)) => Ok(x.as_bytes().cmp(y.as_bytes())),
        (V::Dur(..), V::Dur(..)) => Ok(a.dur_total_ns().cmp(&b.dur_total_ns())),
        (V::Ts(..), V::Ts(..)) => Ok(a.ts_total_ns().cmp(&b.ts_total_ns())),
        (V::Bool(_), V::Bool(_)) | (V::Null, V::Null) | (V::Bytes(_), V::Bytes(_)) | (V::List(_), V::List(_)) => Err(unsup("ordering of bool/null/bytes/list")),
        _ => Err(other()),
    }
}

fn int_arith(op: Op, x: i128, y: i128, lo: i128, hi: i128, signed: bool) -> Result<i128, Stop> {
    let r = match op {
        Op::Add => x + y,
        Op::Sub => x - y,
        Op::Mul => match x.checked_mul(y) {
            Some(r) => r,
            None => return Err(Stop::Err(ErrClass::Overflow)),
        },
        Op::Div => {
            if y == 0 {
                return Err(Stop::Err(ErrClass::ZeroDivisor));
            }
            x / y
        }
        Op::Rem => {
            if y == 0 {
                return Err(Stop::Err(ErrClass::ZeroDivisor));
            }
            if signed && x == i64::MIN as i128 && y == -1 {
                return Err(Stop::Err(ErrClass::Overflow));
            }
            x % y
        }
        _ => unreachable!(),
    };
    if r < lo || r > hi {
        Err(Stop::Err(ErrClass::Overflow))
    } else {
        Ok(r)
    }
}

pub fn arith(op: Op, a: &V, b: &V) -> Res {
    match (a, b) {
        (V::Int(x), V::Int(y)) => int_arith(op, *x as i128, *y as i128, i64::MIN as i128, i64::MAX as i128, true).map(|r| V::Int(r as i64)),
        (V::UInt(x), V::UInt(y)) => int_arith(op, *x as i128, *y as i128, 0, u64::MAX as i128, false).map(|r| V::UInt(r as u64)),
        (V::Float(x), V::Float(y)) => match op {
            Op::Add => Ok(V::f(x.0 + y.0)),
            Op::Sub => Ok(V::f(x.0 - y.0)),
            Op::Mul => Ok(V::f(x.0 * y.0)),
            Op::Div => Ok(V::f(x.0 / y.0)),
            _ => Err(other()),
        },
        (V::Str(x), V::Str(y)) if op == Op::Add => Ok(V::Str(format!("{x}{y}"))),
        (V::List(x), V::List(y)) if op == Op::Add => Ok(V::List(x.iter().chain(y.iter()).cloned().collect())),
        (V::Bytes(_), V::Bytes(_)) if op == Op::Add => Err(unsup("bytes concatenation")),
        (V::Dur(..), _) | (V::Ts(..), _) | (_, V::Dur(..)) | (_, V::Ts(..)) => Err(unsup("time arithmetic (C15/C16)")),
        (V::Func(..), _) | (_, V::Func(..)) => Err(unsup("function value operand")),
        _ => Err(other()),
    }
}

/// key lookup with int/uint identification
pub fn map_get<'a>(es: &'a [(V, V)], k: &V) -> Option<&'a V> {
    // exact key first (mirrors that a map may hold both 1 and 1u — not asserted which wins, and the
    // generators never build such maps)
    if let Some((_, v)) = es.iter().rev().find(|(k2, _)| super::same(k, k2)) {
        return Some(v);
    }
    if matches!(k, V::Int(_) | V::UInt(_)) {
        if let Some((_, v)) = es.iter().rev().find(|(k2, _)| matches!(k2, V::Int(_) | V::UInt(_)) && num_cmp(k, k2).unwrap() == Some(Ordering::Equal)) {
            return Some(v);
        }
    }
    None
}

pub fn has_twin_keys(es: &[(V, V)]) -> bool {
    es.iter().any(|(k, _)| matches!(k, V::Int(_) | V::UInt(_)) && es.iter().any(|(k2, _)| k.kind() != k2.kind() && matches!(k2, V::Int(_) | V::UInt(_)) && num_cmp(k, k2).unwrap() == Some(Ordering::Equal)))
}

fn show_id(v: &V) -> String {
    match v {
        V::Int(i) => i.to_string(),
        V::UInt(u) => format!("{u}u"),
        V::Str(s) => s.clone(),
        V::Bool(b) => b.to_string(),
        V::Null => "null".into(),
        V::Float(f) => format!("{:?}", f.0),
        other => format!("{other:?}"),
    }
}

pub fn eval(e: &E, st: &mut St) -> Res {
    match e {
        E::Lit(v) => Ok(v.clone()),
        E::Raw(_) => Err(unsup("raw source")),
        E::Var(n) => st.lookup(n).cloned().ok_or_else(|| Stop::Err(ErrClass::Undeclared(n.clone()))),
        E::Not(a) => {
            let v = eval(a, st)?;
            Ok(V::Bool(!truthy_bool(&v)?))
        }
        E::Neg(a) => match eval(a, st)? {
            V::Int(i) => i.checked_neg().map(V::Int).ok_or(Stop::Err(ErrClass::Overflow)),
            V::Float(f) => Ok(V::f(-f.0)),
            V::Func(..) => Err(unsup("function value operand")),
            _ => Err(other()),
        },
        E::Bin(Op::And, l, r) => {
            let lv = eval(l, st)?;
            if !truthy_bool(&lv)? {
                st.skipped_operand = true;
                return Ok(V::Bool(false));
            }
            let rv = eval(r, st)?;
            Ok(V::Bool(truthy_bool(&rv)?))
        }
        E::Bin(Op::Or, l, r) => {
            let lv = eval(l, st)?;
            if truthy_bool(&lv)? {
                st.skipped_operand = true;
                return Ok(V::Bool(true));
            }
            let rv = eval(r, st)?;
            Ok(V::Bool(truthy_bool(&rv)?))
        }
        E::Bin(op, l, r) => {
            let a = eval(l, st)?;
            let b = eval(r, st)?;
            match op {
                Op::Add | Op::Sub | Op::Mul | Op::Div | Op::Rem => arith(*op, &a, &b),
                Op::Eq => Ok(V::Bool(cel_eq(&a, &b)?)),
                Op::Ne => Ok(V::Bool(!cel_eq(&a, &b)?)),
                Op::Lt => Ok(V::Bool(cel_cmp(&a, &b)? == Ordering::Less)),
                Op::Le => Ok(V::Bool(cel_cmp(&a, &b)? != Ordering::Greater)),
                Op::Gt => Ok(V::Bool(cel_cmp(&a, &b)? == Ordering::Greater)),
                Op::Ge => Ok(V::Bool(cel_cmp(&a, &b)? != Ordering::Less)),
                Op::In => match (&a, &b) {
                    (_, V::List(xs)) => {
                        let mut found = false;
                        for x in xs {
                            if cel_eq(x, &a)? {
                                found = true;
                            }
                        }
                        Ok(V::Bool(found))
                    }
                    (k, V::Map(es)) if k.is_key_kind() => {
                        if has_twin_keys(es) {
                            return Err(unsup("map with int/uint twin keys"));
                        }
                        Ok(V::Bool(map_get(es, k).is_some()))
                    }
                    (_, V::Map(_)) => Err(unsup("non-key kind `in` map")),
                    (V::Str(_), V::Str(_)) => Err(unsup("string `in` string")),
                    _ => Err(other()),
                },
                Op::And | Op::Or => unreachable!(),
            }
        }
        E::Cond(c, t, f) => {
            let cv = eval(c, st)?;
            st.skipped_operand = true;
            if truthy_bool(&cv)? {
                eval(t, st)
            } else {
                eval(f, st)
            }
        }
        E::Index(a, i) => {
            let av = eval(a, st)?;
            let iv = eval(i, st)?;
            match (&av, &iv) {
                (V::List(xs), V::Int(k)) => Ok(if *k >= 0 && (*k as u64) < xs.len() as u64 { xs[*k as usize].clone() } else { V::Null }),
                (V::List(_), V::UInt(_)) => Err(unsup("uint list index")),
                (V::List(_), _) => Err(other()),
                (V::Map(es), k) if k.is_key_kind() => {
                    if has_twin_keys(es) {
                        return Err(unsup("map with int/uint twin keys"));
                    }
                    Ok(map_get(es, k).cloned().unwrap_or(V::Null))
                }
                (V::Map(_), _) => Err(other()),
                (V::Str(_), _) => Err(unsup("string indexing")),
                (V::Func(..), _) | (_, V::Func(..)) => Err(unsup("function value operand")),
                _ => Err(other()),
            }
        }
        E::Select(a, f) => {
            let av = eval(a, st)?;
            if let V::Map(es) = &av {
                if let Some((_, v)) = es.iter().rev().find(|(k, _)| matches!(k, V::Str(s) if s == f)) {
                    return Ok(v.clone());
                }
            }
            if st.has_function(f) {
                return Err(unsup("selecting a field named like a registered function"));
            }
            Err(Stop::Err(ErrClass::NoSuchKey))
        }
        E::Has(a, f) => {
            let av = eval(a, st)?;
            match &av {
                V::Map(es) => {
                    // keys of other kinds whose text equals the field name: not asserted
                    if es.iter().any(|(k, _)| !matches!(k, V::Str(_)) && show_id(k) == *f) {
                        return Err(unsup("has() with a non-string key of the same text"));
                    }
                    Ok(V::Bool(es.iter().any(|(k, _)| matches!(k, V::Str(s) if s == f))))
                }
                _ => Ok(V::Bool(false)),
            }
        }
        E::List(xs) => {
            let mut out = Vec::with_capacity(xs.len());
            for x in xs {
                out.push(eval(x, st)?);
            }
            Ok(V::List(out))
        }
        E::Map(es) => {
            let mut out: Vec<(V, V)> = vec![];
            for (k, v) in es {
                let kv = eval(k, st)?;
                if !kv.is_key_kind() {
                    if matches!(kv, V::Func(..)) {
                        return Err(unsup("function value operand"));
                    }
                    return Err(other());
                }
                let vv = eval(v, st)?;
                if let Some(slot) = out.iter_mut().find(|(k2, _)| super::same(k2, &kv)) {
                    slot.1 = vv; // a later duplicate overwrites
                } else {
                    out.push((kv, vv));
                }
            }
            Ok(V::Map(out))
        }
        E::Struct(..) => Err(other()),
        E::Macro(m, range, var, body) => eval_macro(*m, range, var, body, st),
        E::Call(name, recv, args) => eval_call(name, recv.as_deref(), args, st),
    }
}

fn eval_macro(m: Mac, range: &E, var: &str, body: &[E], st: &mut St) -> Res {
    let rv = eval(range, st)?;
    let items: Vec<V> = match rv {
        V::List(xs) => xs,
        // the iteration order of a map is unspecified: a prediction is only possible for <= 1 entries, or when the
        // caller has already put the entries into the order the run revealed (C10)
        V::Map(es) if es.len() > 1 && !st.map_order_known => return Err(unsup("macro over a multi-entry map (order unspecified)")),
        V::Map(es) => es.into_iter().map(|(k, _)| k).collect(),
        V::Func(..) => return Err(unsup("function value operand")),
        _ => return Err(other()),
    };
    st.scopes.push(vec![]);
    let r = (|| -> Res {
        let bind = |st: &mut St, x: &V| {
            let s = st.scopes.last_mut().unwrap();
            s.retain(|(k, _)| k != var);
            s.push((var.to_string(), x.clone()));
        };
        match m {
            Mac::All => {
                let mut acc = true;
                for x in &items {
                    if !acc {
                        break;
                    }
                    st.macro_iterations += 1;
                    bind(st, x);
                    let v = eval(&body[0], st)?;
                    acc = truthy_bool(&v)?;
                }
                Ok(V::Bool(acc))
            }
            Mac::Exists => {
                let mut acc = false;
                for x in &items {
                    if acc {
                        break;
                    }
                    st.macro_iterations += 1;
                    bind(st, x);
                    let v = eval(&body[0], st)?;
                    acc = truthy_bool(&v)?;
                }
                Ok(V::Bool(acc))
            }
            Mac::ExistsOne | Mac::ExistsOneCamel => {
                let mut n = 0i64;
                for x in &items {
                    st.macro_iterations += 1;
                    bind(st, x);
                    let v = eval(&body[0], st)?;
                    if truthy_bool(&v)? {
                        n += 1;
                        if n == 2 && st.exists_one_stops_at_two {
                            break;
                        }
                    }
                }
                Ok(V::Bool(n == 1))
            }
            Mac::Map => {
                let mut out = vec![];
                for x in &items {
                    st.macro_iterations += 1;
                    bind(st, x);
                    if body.len() == 2 {
                        let pv = eval(&body[0], st)?;
                        if !truthy_bool(&pv)? {
                            continue;
                        }
                        out.push(eval(&body[1], st)?);
                    } else {
                        out.push(eval(&body[0], st)?);
                    }
                }
                Ok(V::List(out))
            }
            Mac::Filter => {
                let mut out = vec![];
                for x in &items {
                    st.macro_iterations += 1;
                    bind(st, x);
                    let pv = eval(&body[0], st)?;
                    if truthy_bool(&pv)? {
                        out.push(x.clone());
                    }
                }
                Ok(V::List(out))
            }
        }
    })();
    st.scopes.pop();
    r
}

fn utf8_ascii(s: &str) -> bool {
    s.is_ascii()
}

/// `this`-style argument delivery: receiver if present, else the first argument
struct Args<'a> {
    recv: Option<V>,
    args: &'a [E],
    next: usize,
}

impl<'a> Args<'a> {
    fn this(&mut self, st: &mut St) -> Res {
        if let Some(r) = self.recv.take() {
            // note: `take` means a second This would see no receiver; no built-in has two
            return Ok(r);
        }
        if self.next >= self.args.len() {
            return Err(other());
        }
        let v = eval(&self.args[self.next], st)?;
        self.next += 1;
        Ok(v)
    }
    fn arg(&mut self, st: &mut St) -> Res {
        if self.next >= self.args.len() {
            return Err(other());
        }
        let v = eval(&self.args[self.next], st)?;
        self.next += 1;
        Ok(v)
    }
}

/// patterns restricted to literal text with optional ^ / $ anchors; anything else is not modelled
fn simple_match(s: &str, pat: &str) -> Result<bool, Stop> {
    let (a, rest) = match pat.strip_prefix('^') {
        Some(r) => (true, r),
        None => (false, pat),
    };
    let (z, core) = match rest.strip_suffix('$') {
        Some(r) => (true, r),
        None => (false, rest),
    };
    if !core.chars().all(|c| c.is_ascii_alphanumeric() || c == ' ' || c == '_') {
        return Err(unsup("regex beyond literal text and anchors"));
    }
    Ok(match (a, z) {
        (true, true) => s == core,
        (true, false) => s.starts_with(core),
        (false, true) => s.ends_with(core),
        (false, false) => s.contains(core),
    })
}

pub fn conv_int(v: &V) -> Res {
    match v {
        V::Int(i) => Ok(V::Int(*i)),
        V::UInt(u) => i64::try_from(*u).map(V::Int).map_err(|_| Stop::Err(ErrClass::Range)),
        V::Float(f) => {
            let x = f.0;
            if x.is_nan() || x.is_infinite() {
                return Err(Stop::Err(ErrClass::Range));
            }
            let t = x.trunc();
            // −2^63 itself: cel-go rejects it, arithmetic allows it — not asserted
            if t == -9223372036854775808.0 {
                return Err(unsup("int(-2^63 as double)"));
            }
            if t > -9223372036854775808.0 && t < 9223372036854775808.0 {
                Ok(V::Int(t as i64))
            } else {
                Err(Stop::Err(ErrClass::Range))
            }
        }
        V::Str(s) => {
            // decimal digits with an optional leading '-' are certain; everything else is not asserted here (C13 probes it)
            let body = s.strip_prefix('-').unwrap_or(s);
            if !body.is_empty() && body.chars().all(|c| c.is_ascii_digit()) {
                s.parse::<i64>().map(V::Int).map_err(|_| other())
            } else if body.is_empty() || body.chars().any(|c| !(c.is_ascii_digit() || c == '+' || c == '_')) {
                Err(other())
            } else {
                Err(unsup("int() of an unusual numeric string"))
            }
        }
        V::Func(..) => Err(unsup("function value operand")),
        V::Ts(..) | V::Dur(..) => Err(unsup("int() of a time value")),
        _ => Err(other()),
    }
}

pub fn conv_uint(v: &V) -> Res {
    match v {
        V::UInt(u) => Ok(V::UInt(*u)),
        V::Int(i) => u64::try_from(*i).map(V::UInt).map_err(|_| Stop::Err(ErrClass::Range)),
        V::Float(f) => {
            let x = f.0;
            if x.is_nan() || x.is_infinite() {
                return Err(Stop::Err(ErrClass::Range));
            }
            if x < 0.0 && x > -1.0 {
                return Err(unsup("uint(x) for -1 < x < 0"));
            }
            let t = x.trunc();
            if t >= 0.0 && t < 18446744073709551616.0 {
                Ok(V::UInt(t as u64))
            } else {
                Err(Stop::Err(ErrClass::Range))
            }
        }
        V::Str(s) => {
            if !s.is_empty() && s.chars().all(|c| c.is_ascii_digit()) {
                s.parse::<u64>().map(V::UInt).map_err(|_| other())
            } else if s.is_empty() || s.chars().any(|c| !(c.is_ascii_digit() || c == '+' || c == '_')) {
                Err(other())
            } else {
                Err(unsup("uint() of an unusual numeric string"))
            }
        }
        V::Func(..) => Err(unsup("function value operand")),
        V::Ts(..) | V::Dur(..) => Err(unsup("uint() of a time value")),
        _ => Err(other()),
    }
}

pub fn conv_double(v: &V) -> Res {
    match v {
        V::Float(f) => Ok(V::Float(*f)),
        V::Int(i) => Ok(V::f(nearest_f64(*i as i128))),
        V::UInt(u) => Ok(V::f(nearest_f64(*u as i128))),
        V::Str(_) => Err(unsup("double() of a string (C13 probes it)")),
        V::Func(..) => Err(unsup("function value operand")),
        _ => Err(other()),
    }
}

pub fn conv_string(v: &V) -> Res {
    match v {
        V::Str(s) => Ok(V::Str(s.clone())),
        V::Int(i) => Ok(V::Str(i.to_string())),
        V::UInt(u) => Ok(V::Str(u.to_string())),
        V::Float(_) => Err(unsup("string() of a double (C13 checks the round trip)")),
        V::Bytes(b) => match std::str::from_utf8(b) {
            Ok(s) => Ok(V::Str(s.to_string())),
            Err(_) => Err(unsup("string() of invalid UTF-8")),
        },
        V::Dur(..) | V::Ts(..) => Err(unsup("string() of a time value (C15/C16)")),
        V::Func(..) => Err(unsup("function value operand")),
        _ => Err(other()),
    }
}

fn minmax(items: &[V], want: Ordering) -> Res {
    if items.is_empty() {
        return Err(unsup("min/max of nothing"));
    }
    let mut best = items[0].clone();
    for x in &items[1..] {
        let o = cel_cmp(x, &best)?;
        if o == want {
            best = x.clone();
        } else if o == Ordering::Equal && !super::same(x, &best) {
            // equal by value but different representation (1 vs 1u vs 1.0): either is acceptable
            return Err(unsup("min/max tie between different representations"));
        }
    }
    Ok(best)
}

fn eval_call(name: &str, recv: Option<&E>, args: &[E], st: &mut St) -> Res {
    if !st.has_function(name) {
        // the implementation looks the function up before it evaluates receiver or arguments
        return Err(Stop::Err(ErrClass::Undeclared(name.to_string())));
    }
    let recv_v = match recv {
        Some(r) => Some(eval(r, st)?),
        None => None,
    };
    if let Some((_, v)) = st.const_funcs.iter().find(|(k, _)| k == name) {
        if !args.is_empty() {
            return Err(unsup("surplus arguments to a zero-argument host function"));
        }
        st.calls += 1;
        return Ok(v.clone());
    }
    let mut a = Args { recv: recv_v, args, next: 0 };
    if st.host && HOST_FUNCS.contains(&name) {
        return eval_host(name, &mut a, st);
    }
    match name {
        "size" => {
            let v = a.this(st)?;
            match v {
                V::List(xs) => Ok(V::Int(xs.len() as i64)),
                V::Map(es) => Ok(V::Int(es.len() as i64)),
                V::Str(s) => {
                    if utf8_ascii(&s) {
                        Ok(V::Int(s.len() as i64))
                    } else {
                        Err(unsup("size of a non-ASCII string"))
                    }
                }
                V::Bytes(b) => Ok(V::Int(b.len() as i64)),
                V::Func(..) => Err(unsup("function value operand")),
                _ => Err(other()),
            }
        }
        "contains" => {
            let this = a.this(st)?;
            let x = a.arg(st)?;
            match (&this, &x) {
                (V::List(xs), _) => {
                    let mut f = false;
                    for e in xs {
                        if cel_eq(e, &x)? {
                            f = true;
                        }
                    }
                    Ok(V::Bool(f))
                }
                (V::Map(es), k) if k.is_key_kind() => {
                    if has_twin_keys(es) {
                        return Err(unsup("map with int/uint twin keys"));
                    }
                    Ok(V::Bool(map_get(es, k).is_some()))
                }
                (V::Map(_), _) => Err(other()),
                (V::Str(s), V::Str(t)) => Ok(V::Bool(s.contains(t.as_str()))),
                (V::Bytes(s), V::Bytes(t)) => Ok(V::Bool(t.is_empty() || s.windows(t.len()).any(|w| w == &t[..]))),
                (V::Func(..), _) | (_, V::Func(..)) => Err(unsup("function value operand")),
                _ => Err(unsup("contains() on unrelated kinds")),
            }
        }
        "startsWith" | "endsWith" | "matches" => {
            let this = a.this(st)?;
            let this = match this {
                V::Str(s) => s,
                V::Func(..) => return Err(unsup("function value operand")),
                _ => return Err(other()),
            };
            let x = a.arg(st)?;
            let x = match x {
                V::Str(s) => s,
                V::Func(..) => return Err(unsup("function value operand")),
                _ => return Err(other()),
            };
            Ok(V::Bool(match name {
                "startsWith" => this.starts_with(x.as_str()),
                "endsWith" => this.ends_with(x.as_str()),
                _ => simple_match(&this, &x)?,
            }))
        }
        "int" => {
            let v = a.this(st)?;
            conv_int(&v)
        }
        "uint" => {
            let v = a.this(st)?;
            conv_uint(&v)
        }
        "double" => {
            let v = a.this(st)?;
            conv_double(&v)
        }
        "string" => {
            let v = a.this(st)?;
            conv_string(&v)
        }
        "bytes" => {
            if a.recv.is_some() {
                return Err(unsup("bytes() called as a method"));
            }
            match a.arg(st)? {
                V::Str(s) => Ok(V::Bytes(s.into_bytes())),
                V::Func(..) => Err(unsup("function value operand")),
                _ => Err(other()),
            }
        }
        "max" | "min" => {
            // variadic: the receiver (already evaluated, once) is not among the arguments
            let mut items = vec![];
            for x in args {
                items.push(eval(x, st)?);
            }
            let items = if items.len() == 1 {
                match &items[0] {
                    V::List(xs) => xs.clone(),
                    _ => return Ok(items[0].clone()),
                }
            } else {
                items
            };
            if items.is_empty() {
                return Ok(V::Null);
            }
            minmax(&items, if name == "max" { Ordering::Greater } else { Ordering::Less })
        }
        _ => Err(unsup("time built-ins are checked by C15/C16")),
    }
}

fn eval_host(name: &str, a: &mut Args, st: &mut St) -> Res {
    let n_params = |name: &str| -> usize {
        match name {
            "h0" | "fail" | "noop" => 0,
            "h1" | "fail1" | "q" | "m0" => 1,
            "h2" | "t" | "tf" | "q2" | "m1" => 2,
            "h3" | "m2" => 3,
            "h4" | "m3" => 4,
            _ => 0,
        }
    };
    match name {
        "va" => {
            let mut items = vec![];
            for x in a.args {
                items.push(eval(x, st)?);
            }
            st.calls += 1;
            st.log.push("va".into());
            Ok(V::List(items))
        }
        "idf" => Err(unsup("identifier extractor (C20)")),
        "thisopt" => Err(unsup("optional receiver (C20)")),
        // the host function reads a variable *by name* from the context it is called in
        "peek" => {
            let v = a.arg(st)?;
            st.calls += 1;
            match v {
                V::Str(n) => match st.lookup(&n) {
                    Some(x) => Ok(x.clone()),
                    None => Err(Stop::Err(ErrClass::Undeclared(n))),
                },
                _ => Err(other()),
            }
        }
        "m0" | "m1" | "m2" | "m3" => {
            let this = a.this(st)?;
            for _ in 1..n_params(name) {
                a.arg(st)?;
            }
            st.calls += 1;
            st.log.push(name.to_string());
            Ok(this)
        }
        _ => {
            let n = n_params(name);
            let mut vals = vec![];
            for _ in 0..n {
                vals.push(a.arg(st)?);
            }
            st.calls += 1;
            match name {
                "t" => {
                    st.log.push(format!("t:{}", show_id(&vals[0])));
                    Ok(vals[1].clone())
                }
                "tf" => {
                    // logs, then fails
                    st.log.push(format!("tf:{}", show_id(&vals[0])));
                    Err(other())
                }
                "fail" | "fail1" => {
                    st.log.push(name.to_string());
                    Err(other())
                }
                "noop" => {
                    st.log.push("noop".into());
                    Ok(V::Null)
                }
                "h0" => {
                    st.log.push("h0".into());
                    Ok(V::Int(0))
                }
                "h1" | "h2" | "h3" | "h4" => {
                    st.log.push(name.to_string());
                    Ok(vals[0].clone())
                }
                "q" | "q2" => {
                    let key = if name == "q" { vals[0].clone() } else { V::List(vals.clone()) };
                    st.log.push(format!("{name}:{}", show_id(&key)));
                    match st.table.iter().find(|(k, _)| super::same(k, &key)) {
                        Some((_, Some(v))) => Ok(v.clone()),
                        Some((_, None)) => Err(other()),
                        None => Ok(V::Bool(false)),
                    }
                }
                _ => Err(unsup("unknown host function")),
            }
        }
    }
}

pub fn show_key(v: &V) -> String {
    show_id(v)
}
