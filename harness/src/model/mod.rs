//! Reference values.  `V` is the harness' own deep-copy value type: nothing in it shares storage
//! with the interpreter, so it can serve as the "before" image in purity checks and as the result
//! type of the reference evaluator.

pub mod cal;
pub mod dur;
pub mod eval;
pub mod expr;
pub mod lit;
pub mod num;

use serde::{Deserialize, Deserializer, Serialize, Serializer};

/// f64 that serialises to text (JSON cannot carry NaN / inf / -0.0 faithfully)
#[derive(Clone, Copy, Debug)]
pub struct F(pub f64);

impl Serialize for F {
    fn serialize<S: Serializer>(&self, s: S) -> Result<S::Ok, S::Error> {
        s.serialize_str(&format!("{:?}", self.0))
    }
}
impl<'de> Deserialize<'de> for F {
    fn deserialize<D: Deserializer<'de>>(d: D) -> Result<Self, D::Error> {
        let s = String::deserialize(d)?;
        s.parse::<f64>().map(F).map_err(serde::de::Error::custom)
    }
}

#[derive(Clone, Debug, Serialize, Deserialize)]
pub enum V {
    Null,
    Bool(bool),
    Int(i64),
    UInt(u64),
    Float(F),
    Str(String),
    Bytes(Vec<u8>),
    List(Vec<V>),
    /// association list in insertion order; keys are Int / UInt / Bool / Str
    Map(Vec<(V, V)>),
    /// chrono-style (floor seconds, 0 <= nanos < 1e9)
    Dur(i64, u32),
    /// UTC instant as (floor seconds, nanos) since the epoch, plus the offset in seconds
    Ts(i64, u32, i32),
    Func(String, Option<Box<V>>),
}

impl V {
    pub fn f(x: f64) -> V {
        V::Float(F(x))
    }
    pub fn s(x: &str) -> V {
        V::Str(x.to_string())
    }
    pub fn dur_ns(ns: i128) -> V {
        let secs = ns.div_euclid(1_000_000_000);
        let nanos = ns.rem_euclid(1_000_000_000);
        V::Dur(secs as i64, nanos as u32)
    }
    pub fn dur_total_ns(&self) -> Option<i128> {
        match self {
            V::Dur(s, n) => Some(*s as i128 * 1_000_000_000 + *n as i128),
            _ => None,
        }
    }
    pub fn ts_total_ns(&self) -> Option<i128> {
        match self {
            V::Ts(s, n, _) => Some(*s as i128 * 1_000_000_000 + *n as i128),
            _ => None,
        }
    }
    pub fn kind(&self) -> &'static str {
        match self {
            V::Null => "null",
            V::Bool(_) => "bool",
            V::Int(_) => "int",
            V::UInt(_) => "uint",
            V::Float(_) => "double",
            V::Str(_) => "string",
            V::Bytes(_) => "bytes",
            V::List(_) => "list",
            V::Map(_) => "map",
            V::Dur(..) => "duration",
            V::Ts(..) => "timestamp",
            V::Func(..) => "function",
        }
    }
    pub fn is_key_kind(&self) -> bool {
        matches!(self, V::Int(_) | V::UInt(_) | V::Bool(_) | V::Str(_))
    }
    pub fn depth(&self) -> usize {
        match self {
            V::List(xs) => 1 + xs.iter().map(|x| x.depth()).max().unwrap_or(0),
            V::Map(es) => 1 + es.iter().map(|(_, v)| v.depth()).max().unwrap_or(0),
            V::Func(_, Some(b)) => 1 + b.depth(),
            _ => 0,
        }
    }
    pub fn any(&self, p: &dyn Fn(&V) -> bool) -> bool {
        if p(self) {
            return true;
        }
        match self {
            V::List(xs) => xs.iter().any(|x| x.any(p)),
            V::Map(es) => es.iter().any(|(k, v)| k.any(p) || v.any(p)),
            V::Func(_, Some(b)) => b.any(p),
            _ => false,
        }
    }
}

/// Structural, type-exact identity used to compare an observed result with an expected one:
/// `Int(1)` differs from `UInt(1)`, doubles are compared bitwise except that every NaN is one class,
/// maps are compared as sets of (key, value) entries (iteration order is unspecified).
pub fn same(a: &V, b: &V) -> bool {
    match (a, b) {
        (V::Null, V::Null) => true,
        (V::Bool(x), V::Bool(y)) => x == y,
        (V::Int(x), V::Int(y)) => x == y,
        (V::UInt(x), V::UInt(y)) => x == y,
        (V::Float(x), V::Float(y)) => (x.0.is_nan() && y.0.is_nan()) || x.0.to_bits() == y.0.to_bits(),
        (V::Str(x), V::Str(y)) => x == y,
        (V::Bytes(x), V::Bytes(y)) => x == y,
        (V::List(x), V::List(y)) => x.len() == y.len() && x.iter().zip(y).all(|(p, q)| same(p, q)),
        (V::Map(x), V::Map(y)) => {
            x.len() == y.len() && x.iter().all(|(k, v)| y.iter().filter(|(k2, _)| same(k, k2)).count() == 1 && y.iter().any(|(k2, v2)| same(k, k2) && same(v, v2)))
        }
        (V::Dur(a1, a2), V::Dur(b1, b2)) => a1 == b1 && a2 == b2,
        // two timestamps are "the same value" when instant and offset agree
        (V::Ts(a1, a2, a3), V::Ts(b1, b2, b3)) => a1 == b1 && a2 == b2 && a3 == b3,
        (V::Func(n1, t1), V::Func(n2, t2)) => {
            n1 == n2
                && match (t1, t2) {
                    (None, None) => true,
                    (Some(p), Some(q)) => same(p, q),
                    _ => false,
                }
        }
        _ => false,
    }
}

/// like `same` but 0.0 and -0.0 are identified (used where the property says "equal", not "identical")
pub fn same_value(a: &V, b: &V) -> bool {
    match (a, b) {
        (V::Float(x), V::Float(y)) => (x.0.is_nan() && y.0.is_nan()) || x.0 == y.0,
        (V::List(x), V::List(y)) => x.len() == y.len() && x.iter().zip(y).all(|(p, q)| same_value(p, q)),
        (V::Map(x), V::Map(y)) => x.len() == y.len() && x.iter().all(|(k, v)| y.iter().any(|(k2, v2)| same(k, k2) && same_value(v, v2))),
        _ => same(a, b),
    }
}

/// Coarse error classes (DESIGN §4).  Classification is by rendered message / variant family so a
/// refactor that renames a variant but keeps its meaning does not alarm.
#[derive(Clone, Debug, PartialEq, Eq, Serialize, Deserialize)]
pub enum ErrClass {
    Overflow,
    ZeroDivisor,
    NoSuchKey,
    Undeclared(String),
    /// model only: a conversion argument outside the target range / NaN — the statement asks for "an error"
    Range,
    /// any other execution error: unsupported operator / unexpected type / not comparable / bad
    /// index / argument count / function error
    Other,
}

impl ErrClass {
    pub fn coarse(&self) -> &'static str {
        match self {
            ErrClass::Overflow => "err:overflow",
            ErrClass::ZeroDivisor => "err:zero-divisor",
            ErrClass::NoSuchKey => "err:no-such-key",
            ErrClass::Undeclared(_) => "err:undeclared",
            ErrClass::Range => "err:conversion-range",
            ErrClass::Other => "err:other",
        }
    }
}
