//! Independent Go-style duration text (DESIGN B.3): formatter and exact parser, written from the
//! Go specification of time.Duration.String / time.ParseDuration, not ported from duration.rs.

fn frac_digits(rem: u128, width: usize) -> String {
    if rem == 0 {
        return String::new();
    }
    let s = format!("{:0width$}", rem, width = width);
    format!(".{}", s.trim_end_matches('0'))
}

/// canonical Go rendering of a nanosecond count
pub fn go_format(ns: i128) -> String {
    if ns == 0 {
        return "0s".into();
    }
    let u = ns.unsigned_abs();
    let body = if u < 1_000 {
        format!("{u}ns")
    } else if u < 1_000_000 {
        format!("{}{}µs", u / 1_000, frac_digits(u % 1_000, 3))
    } else if u < 1_000_000_000 {
        format!("{}{}ms", u / 1_000_000, frac_digits(u % 1_000_000, 6))
    } else {
        let secs = u / 1_000_000_000;
        let sec_str = format!("{}{}s", secs % 60, frac_digits(u % 1_000_000_000, 9));
        let (h, m) = (secs / 3600, (secs / 60) % 60);
        if h > 0 {
            format!("{h}h{m}m{sec_str}")
        } else if m > 0 {
            format!("{m}m{sec_str}")
        } else {
            sec_str
        }
    };
    if ns < 0 {
        format!("-{body}")
    } else {
        body
    }
}

#[derive(Debug, Clone, PartialEq)]
pub enum Parsed {
    Malformed(&'static str),
    /// signed bounds of the denoted value in ns (equal when every term is a whole number of ns);
    /// flags for spellings whose acceptance is not asserted
    Ok { lo: i128, hi: i128, plus_sign: bool, bare_dot_number: bool, micro_symbol: bool },
}

/// `[+-]? ( "0" | (number unit)+ )`, number = digits [. digits*] | . digits+, unit in ns us µs μs ms s m h
pub fn parse(s: &str) -> Parsed {
    let mut rest = s;
    let mut neg = false;
    let mut plus = false;
    if let Some(r) = rest.strip_prefix('-') {
        neg = true;
        rest = r;
    } else if let Some(r) = rest.strip_prefix('+') {
        plus = true;
        rest = r;
    }
    if rest == "0" {
        return Parsed::Ok { lo: 0, hi: 0, plus_sign: plus, bare_dot_number: false, micro_symbol: false };
    }
    if rest.is_empty() {
        return Parsed::Malformed("empty");
    }
    let (mut lo, mut hi) = (0u128, 0u128);
    let mut bare = false;
    let mut micro = false;
    while !rest.is_empty() {
        let int_len = rest.bytes().take_while(|b| b.is_ascii_digit()).count();
        let int_part = &rest[..int_len];
        rest = &rest[int_len..];
        let mut frac_part = "";
        let mut had_dot = false;
        if let Some(r) = rest.strip_prefix('.') {
            had_dot = true;
            let fl = r.bytes().take_while(|b| b.is_ascii_digit()).count();
            frac_part = &r[..fl];
            rest = &r[fl..];
        }
        if int_part.is_empty() && frac_part.is_empty() {
            return Parsed::Malformed("term without a decimal number");
        }
        if had_dot && (int_part.is_empty() || frac_part.is_empty()) {
            bare = true;
        }
        let units: [(&str, u128); 8] = [("ns", 1), ("us", 1_000), ("µs", 1_000), ("μs", 1_000), ("ms", 1_000_000), ("s", 1_000_000_000), ("m", 60_000_000_000), ("h", 3_600_000_000_000)];
        let Some((name, unit)) = units.iter().find(|(n, _)| rest.starts_with(n)).copied() else {
            return Parsed::Malformed("missing or unknown unit");
        };
        if name == "µs" || name == "μs" {
            micro = true;
        }
        rest = &rest[name.len()..];
        // exact value of the term as a rational: (int * 10^k + frac) * unit / 10^k
        if int_part.len() > 30 || frac_part.len() > 60 {
            // absurdly long numbers: magnitude decides
            if int_part.trim_start_matches('0').len() > 25 {
                return Parsed::Ok { lo: i128::MAX, hi: i128::MAX, plus_sign: plus, bare_dot_number: bare, micro_symbol: micro };
            }
        }
        let int_val: u128 = int_part.trim_start_matches('0').parse().unwrap_or(0);
        let whole = int_val.saturating_mul(unit);
        // fraction: floor and ceil of frac * unit / 10^k from the first 24 digits (24 digits x unit <= 3.6e12 fits u128;
        // the remaining digits only decide whether the term is exact)
        let (flo, fhi) = {
            let digits24: String = frac_part.chars().take(24).collect();
            let k = digits24.len() as u32;
            let fv: u128 = if digits24.is_empty() { 0 } else { digits24.parse().unwrap_or(0) };
            let scale = 10u128.pow(k);
            let n = fv * unit;
            let fl = n / scale;
            let exact = n % scale == 0 && frac_part.chars().skip(24).all(|c| c == '0');
            (fl, if exact { fl } else { fl + 1 })
        };
        lo = lo.saturating_add(whole.saturating_add(flo));
        hi = hi.saturating_add(whole.saturating_add(fhi));
    }
    let to_signed = |x: u128| -> i128 {
        let v = if x > i128::MAX as u128 / 2 { i128::MAX / 2 } else { x as i128 };
        if neg {
            -v
        } else {
            v
        }
    };
    let (a, b) = (to_signed(lo), to_signed(hi));
    Parsed::Ok { lo: a.min(b), hi: a.max(b), plus_sign: plus, bare_dot_number: bare, micro_symbol: micro }
}
