//! stub
