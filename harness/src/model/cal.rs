//! Independent proleptic-Gregorian calendar from day-count arithmetic (no chrono), plus an
//! RFC 3339 writer and reader.

/// days since 1970-01-01 of the civil date (proleptic Gregorian); months 1-12, days 1-31
pub fn days_from_civil(y: i64, m: u32, d: u32) -> i64 {
    let y = if m <= 2 { y - 1 } else { y };
    let era = if y >= 0 { y } else { y - 399 } / 400;
    let yoe = y - era * 400; // [0, 399]
    let mp = (m as i64 + 9) % 12; // March = 0
    let doy = (153 * mp + 2) / 5 + d as i64 - 1; // [0, 365]
    let doe = yoe * 365 + yoe / 4 - yoe / 100 + doy; // [0, 146096]
    era * 146097 + doe - 719468
}

/// inverse of days_from_civil
pub fn civil_from_days(z: i64) -> (i64, u32, u32) {
    let z = z + 719468;
    let era = if z >= 0 { z } else { z - 146096 } / 146097;
    let doe = z - era * 146097; // [0, 146096]
    let yoe = (doe - doe / 1460 + doe / 36524 - doe / 146096) / 365; // [0, 399]
    let y = yoe + era * 400;
    let doy = doe - (365 * yoe + yoe / 4 - yoe / 100); // [0, 365]
    let mp = (5 * doy + 2) / 153; // [0, 11]
    let d = (doy - (153 * mp + 2) / 5 + 1) as u32;
    let m = if mp < 10 { mp + 3 } else { mp - 9 } as u32;
    (if m <= 2 { y + 1 } else { y }, m, d)
}

pub fn is_leap(y: i64) -> bool {
    (y % 4 == 0 && y % 100 != 0) || y % 400 == 0
}

pub fn days_in_month(y: i64, m: u32) -> u32 {
    match m {
        1 | 3 | 5 | 7 | 8 | 10 | 12 => 31,
        4 | 6 | 9 | 11 => 30,
        _ => {
            if is_leap(y) {
                29
            } else {
                28
            }
        }
    }
}

#[derive(Debug, Clone, PartialEq)]
pub struct Fields {
    pub year: i64,
    pub month: u32, // 1-12
    pub day: u32,   // 1-31
    pub hour: u32,
    pub minute: u32,
    pub second: u32,
    pub nanos: u32,
    /// 0 = Sunday
    pub weekday: u32,
    /// 0-based
    pub day_of_year: u32,
}

/// local calendar fields of the instant (secs, nanos) seen at `off` seconds east of UTC
pub fn fields(secs: i64, nanos: u32, off: i32) -> Fields {
    let local = secs as i128 + off as i128;
    let days = local.div_euclid(86400) as i64;
    let sod = local.rem_euclid(86400) as u32;
    let (year, month, day) = civil_from_days(days);
    Fields {
        year,
        month,
        day,
        hour: sod / 3600,
        minute: (sod / 60) % 60,
        second: sod % 60,
        nanos,
        weekday: (days + 4).rem_euclid(7) as u32, // 1970-01-01 was a Thursday
        day_of_year: (days - days_from_civil(year, 1, 1)) as u32,
    }
}

/// instant of a local civil time at an offset
pub fn instant(y: i64, mo: u32, d: u32, h: u32, mi: u32, s: u32, off: i32) -> i64 {
    days_from_civil(y, mo, d) * 86400 + (h * 3600 + mi * 60 + s) as i64 - off as i64
}

/// RFC 3339 text; `frac_digits` = number of fractional digits to print (0 = none; the nanos must be representable)
pub fn rfc3339(secs: i64, nanos: u32, off: i32, frac_digits: usize, zulu: bool) -> String {
    let f = fields(secs, nanos, off);
    let mut s = format!("{:04}-{:02}-{:02}T{:02}:{:02}:{:02}", f.year, f.month, f.day, f.hour, f.minute, f.second);
    if frac_digits > 0 {
        let all = format!("{:09}", nanos);
        s.push('.');
        s.push_str(&all[..frac_digits]);
    }
    if off == 0 && zulu {
        s.push('Z');
    } else {
        let a = off.abs();
        s.push_str(&format!("{}{:02}:{:02}", if off < 0 { '-' } else { '+' }, a / 3600, (a / 60) % 60));
    }
    s
}

/// strict RFC 3339 reader: returns (secs, nanos, off)
pub fn parse_rfc3339(s: &str) -> Option<(i64, u32, i32)> {
    let b = s.as_bytes();
    let num = |r: std::ops::Range<usize>| -> Option<i64> {
        let t = s.get(r)?;
        if t.is_empty() || !t.bytes().all(|c| c.is_ascii_digit()) {
            return None;
        }
        t.parse().ok()
    };
    if b.len() < 20 {
        return None;
    }
    let y = num(0..4)?;
    if b[4] != b'-' || b[7] != b'-' || !(b[10] == b'T' || b[10] == b't' || b[10] == b' ') || b[13] != b':' || b[16] != b':' {
        return None;
    }
    let (mo, d, h, mi, sec) = (num(5..7)? as u32, num(8..10)? as u32, num(11..13)? as u32, num(14..16)? as u32, num(17..19)? as u32);
    if mo < 1 || mo > 12 || d < 1 || d > days_in_month(y, mo) || h > 23 || mi > 59 || sec > 59 {
        return None;
    }
    let mut i = 19;
    let mut nanos = 0u32;
    if b[i] == b'.' {
        let start = i + 1;
        let mut j = start;
        while j < b.len() && b[j].is_ascii_digit() {
            j += 1;
        }
        if j == start {
            return None;
        }
        let digits = &s[start..j];
        let mut padded = digits.chars().take(9).collect::<String>();
        while padded.len() < 9 {
            padded.push('0');
        }
        nanos = padded.parse().ok()?;
        i = j;
    }
    let off = match b.get(i)? {
        b'Z' | b'z' => {
            if i + 1 != b.len() {
                return None;
            }
            0
        }
        c @ (b'+' | b'-') => {
            if i + 6 != b.len() || b[i + 3] != b':' {
                return None;
            }
            let (oh, om) = (num(i + 1..i + 3)? as i32, num(i + 4..i + 6)? as i32);
            if oh > 23 || om > 59 {
                return None;
            }
            let v = oh * 3600 + om * 60;
            if *c == b'-' {
                -v
            } else {
                v
            }
        }
        _ => return None,
    };
    Some((instant(y, mo, d, h, mi, sec, off), nanos, off))
}
