//! Rendering of values as CEL literals (the conservative spelling used inside generated
//! programs; the full spelling matrix for C12/C13 lives with those properties).

use super::V;

/// Double-quoted, with the escapes `\\ \" \n \r \t` and `\xHH` for other C0 controls; everything
/// else verbatim.  Never emits `\'` (see known finding lit_escaped_other_quote_keeps_backslash).
pub fn str_lit(s: &str) -> String {
    let mut o = String::with_capacity(s.len() + 2);
    o.push('"');
    for c in s.chars() {
        match c {
            '\\' => o.push_str("\\\\"),
            '"' => o.push_str("\\\""),
            '\n' => o.push_str("\\n"),
            '\r' => o.push_str("\\r"),
            '\t' => o.push_str("\\t"),
            c if (c as u32) < 0x20 || c as u32 == 0x7f => o.push_str(&format!("\\x{:02x}", c as u32)),
            c => o.push(c),
        }
    }
    o.push('"');
    o
}

/// `b"…"` with every byte that is not an ASCII letter, digit or space written as `\xHH`
pub fn bytes_lit(b: &[u8]) -> String {
    let mut o = String::from("b\"");
    for x in b {
        if x.is_ascii_alphanumeric() || *x == b' ' {
            o.push(*x as char);
        } else {
            o.push_str(&format!("\\x{:02x}", x));
        }
    }
    o.push('"');
    o
}

pub fn float_lit(f: f64) -> Option<String> {
    if !f.is_finite() {
        return None;
    }
    let s = format!("{:?}", f);
    // Rust prints e.g. "1e16", "1.5e-7", "1.0": all are NUM_FLOAT tokens
    Some(s)
}

/// A literal spelling of `v`, parenthesised when it starts with a sign so that it can stand in any
/// operand position.  None for values that have no literal form (NaN, inf, durations, …).
pub fn lit(v: &V) -> Option<String> {
    Some(match v {
        V::Null => "null".into(),
        V::Bool(b) => b.to_string(),
        V::Int(i) => {
            if *i < 0 {
                format!("({i})")
            } else {
                i.to_string()
            }
        }
        V::UInt(u) => format!("{u}u"),
        V::Float(f) => {
            let s = float_lit(f.0)?;
            if s.starts_with('-') {
                format!("({s})")
            } else {
                s
            }
        }
        V::Str(s) => str_lit(s),
        V::Bytes(b) => bytes_lit(b),
        V::List(xs) => {
            let parts: Option<Vec<String>> = xs.iter().map(lit).collect();
            format!("[{}]", parts?.join(", "))
        }
        V::Map(es) => {
            let mut parts = vec![];
            for (k, v) in es {
                parts.push(format!("{}: {}", lit(k)?, lit(v)?));
            }
            format!("{{{}}}", parts.join(", "))
        }
        _ => return None,
    })
}
