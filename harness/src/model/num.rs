//! Numeric boundary sets (DESIGN Appendix B.7) and exact cross-type comparison.

use std::cmp::Ordering;

pub fn i64_boundary() -> Vec<i64> {
    let mut v: Vec<i64> = vec![0, 1, 2, 3, 7, 10, 255, 1 << 15, (1 << 31) - 1, 1 << 31, (1 << 31) + 1, (1 << 32) - 1, 1 << 32, 3037000499, 3037000500, (1 << 53) - 1, 1 << 53, (1 << 53) + 1, 1 << 62, (1 << 62) + 1, i64::MAX / 3];
    let neg: Vec<i64> = v.iter().filter(|x| **x != 0).map(|x| -x).collect();
    v.extend(neg);
    v.extend([i64::MAX, i64::MAX - 1, i64::MIN, i64::MIN + 1, i64::MAX / 2, i64::MIN / 2, i64::MAX / 2 + 1, i64::MIN / 2 - 1, -(1 << 62) - 1, 4611686018427387904 - 1]);
    // pad with log-spaced values
    v.sort();
    v.dedup();
    let mut k = 5u32;
    while v.len() < 60 {
        let x = 3i64.checked_pow(k).unwrap_or(5i64.pow(k % 27)) * if k % 2 == 0 { 1 } else { -1 };
        if !v.contains(&x) {
            v.push(x);
        }
        k += 2;
    }
    v.sort();
    v.dedup();
    v
}

pub fn u64_boundary() -> Vec<u64> {
    let mut v: Vec<u64> = vec![
        0,
        1,
        2,
        3,
        7,
        10,
        255,
        1 << 16,
        (1 << 32) - 1,
        1 << 32,
        (1 << 32) + 1,
        4294967295u64 * 4294967295u64,
        (1 << 53) - 1,
        1 << 53,
        (1 << 53) + 1,
        (1 << 63) - 1,
        1 << 63,
        (1 << 63) + 1,
        u64::MAX,
        u64::MAX - 1,
        u64::MAX / 2,
        u64::MAX / 2 + 1,
        u64::MAX / 3,
        u64::MAX / 3 + 1,
        6074000999,
        6074001000,
        4294967296 * 2,
        65535,
        65537,
        1 << 62,
    ];
    v.sort();
    v.dedup();
    let mut k = 4u32;
    while v.len() < 60 {
        let x = 3u64.checked_pow(k).unwrap_or(5u64.pow(k % 27));
        if !v.contains(&x) {
            v.push(x);
        }
        k += 1;
    }
    v.sort();
    v.dedup();
    v
}

pub fn f64_boundary() -> Vec<f64> {
    let p53 = 9007199254740992.0f64;
    let p63 = 9223372036854775808.0f64;
    let p64 = 18446744073709551616.0f64;
    let up = |x: f64| f64::from_bits(x.to_bits() + 1);
    let down = |x: f64| f64::from_bits(x.to_bits() - 1);
    vec![
        0.0,
        -0.0,
        f64::MIN_POSITIVE,
        -f64::MIN_POSITIVE,
        f64::from_bits(1),
        0.5,
        -0.5,
        1.0,
        -1.0,
        1.5,
        -1.5,
        2.0,
        p53 - 1.0,
        -(p53 - 1.0),
        p53,
        -p53,
        p53 + 2.0,
        -(p53 + 2.0),
        p63,
        -p63,
        up(p63),
        down(p63),
        -up(p63),
        -down(p63),
        p64,
        up(p64),
        down(p64),
        f64::MAX,
        f64::MIN,
        f64::INFINITY,
        f64::NEG_INFINITY,
        f64::NAN,
        4294967296.0,
        2147483648.5,
        -2147483648.5,
        0.1,
        1e100,
        -1e100,
        123456789.125,
    ]
}

/// Exact comparison of an integer (given as i128, covers i64 and u64) with a double.
/// None when the double is NaN.
pub fn cmp_int_f64(i: i128, f: f64) -> Option<Ordering> {
    if f.is_nan() {
        return None;
    }
    if f == f64::INFINITY {
        return Some(Ordering::Less);
    }
    if f == f64::NEG_INFINITY {
        return Some(Ordering::Greater);
    }
    // |f| >= 2^65 is beyond every 64-bit integer
    if f >= 36893488147419103232.0 {
        return Some(Ordering::Less);
    }
    if f <= -36893488147419103232.0 {
        return Some(Ordering::Greater);
    }
    let t = f.trunc();
    let ti = t as i128; // exact: |t| < 2^65 and t is integral
    match i.cmp(&ti) {
        Ordering::Equal => {
            let frac = f - t; // exact for doubles
            if frac > 0.0 {
                Some(Ordering::Less)
            } else if frac < 0.0 {
                Some(Ordering::Greater)
            } else {
                Some(Ordering::Equal)
            }
        }
        o => Some(o),
    }
}

/// the nearest double of an integer (ties to even), computed without `as f64` on the full width
pub fn nearest_f64(i: i128) -> f64 {
    if i == 0 {
        return 0.0;
    }
    let neg = i < 0;
    let m = i.unsigned_abs();
    let bits = 128 - m.leading_zeros();
    let r = if bits <= 53 {
        m as f64
    } else {
        let shift = bits - 53;
        let top = m >> shift;
        let rem = m & ((1u128 << shift) - 1);
        let half = 1u128 << (shift - 1);
        let mut top = top;
        if rem > half || (rem == half && (top & 1) == 1) {
            top += 1;
        }
        (top as f64) * 2f64.powi(shift as i32)
    };
    if neg {
        -r
    } else {
        r
    }
}

/// Exact decimal expansion of a finite double (every double is a dyadic rational m * 2^e, so its
/// decimal expansion terminates).  Computed with a small base-1e9 big integer; independent of any
/// float formatter or parser.
pub fn exact_decimal(f: f64) -> Option<String> {
    if !f.is_finite() {
        return None;
    }
    let bits = f.to_bits();
    let neg = (bits >> 63) != 0;
    let exp_bits = ((bits >> 52) & 0x7ff) as i64;
    let frac = bits & ((1u64 << 52) - 1);
    let (m, e) = if exp_bits == 0 { (frac, -1074i64) } else { (frac | (1u64 << 52), exp_bits - 1075) };
    if m == 0 {
        return Some(if neg { "-0.0".into() } else { "0.0".into() });
    }
    // big = m as base-1e9 limbs (little endian)
    let mut big: Vec<u32> = vec![];
    let mut t = m;
    while t > 0 {
        big.push((t % 1_000_000_000) as u32);
        t /= 1_000_000_000;
    }
    let mul_small = |big: &mut Vec<u32>, k: u32| {
        let mut carry = 0u64;
        for limb in big.iter_mut() {
            let v = *limb as u64 * k as u64 + carry;
            *limb = (v % 1_000_000_000) as u32;
            carry = v / 1_000_000_000;
        }
        while carry > 0 {
            big.push((carry % 1_000_000_000) as u32);
            carry /= 1_000_000_000;
        }
    };
    let digits_after_point: usize;
    if e >= 0 {
        for _ in 0..e {
            mul_small(&mut big, 2);
        }
        digits_after_point = 0;
    } else {
        // m * 2^e = m * 5^k / 10^k with k = -e
        for _ in 0..(-e) {
            mul_small(&mut big, 5);
        }
        digits_after_point = (-e) as usize;
    }
    let mut s = String::new();
    for (i, limb) in big.iter().rev().enumerate() {
        if i == 0 {
            s.push_str(&limb.to_string());
        } else {
            s.push_str(&format!("{:09}", limb));
        }
    }
    let out = if digits_after_point == 0 {
        format!("{s}.0")
    } else {
        let mut s = s;
        while s.len() <= digits_after_point {
            s.insert(0, '0');
        }
        let (ip, fp) = s.split_at(s.len() - digits_after_point);
        let fp = fp.trim_end_matches('0');
        format!("{ip}.{}", if fp.is_empty() { "0" } else { fp })
    };
    Some(if neg { format!("-{out}") } else { out })
}
