//! The harness' own expression tree and its renderers.

use super::{lit, V};
use serde::{Deserialize, Serialize};

#[derive(Clone, Copy, Debug, PartialEq, Eq, Serialize, Deserialize)]
pub enum Op {
    Add,
    Sub,
    Mul,
    Div,
    Rem,
    Eq,
    Ne,
    Lt,
    Le,
    Gt,
    Ge,
    In,
    And,
    Or,
}

impl Op {
    pub fn text(self) -> &'static str {
        match self {
            Op::Add => "+",
            Op::Sub => "-",
            Op::Mul => "*",
            Op::Div => "/",
            Op::Rem => "%",
            Op::Eq => "==",
            Op::Ne => "!=",
            Op::Lt => "<",
            Op::Le => "<=",
            Op::Gt => ">",
            Op::Ge => ">=",
            Op::In => "in",
            Op::And => "&&",
            Op::Or => "||",
        }
    }
    /// precedence level, larger binds tighter (CEL.g4: expr > conditionalOr > conditionalAnd > relation > calc(+,-) > calc(*,/,%) > unary > member)
    pub fn level(self) -> u8 {
        match self {
            Op::Or => 1,
            Op::And => 2,
            Op::Eq | Op::Ne | Op::Lt | Op::Le | Op::Gt | Op::Ge | Op::In => 3,
            Op::Add | Op::Sub => 4,
            Op::Mul | Op::Div | Op::Rem => 5,
        }
    }
    pub const ARITH: [Op; 5] = [Op::Add, Op::Sub, Op::Mul, Op::Div, Op::Rem];
    pub const REL: [Op; 6] = [Op::Eq, Op::Ne, Op::Lt, Op::Le, Op::Gt, Op::Ge];
    pub const ALL: [Op; 14] = [Op::Add, Op::Sub, Op::Mul, Op::Div, Op::Rem, Op::Eq, Op::Ne, Op::Lt, Op::Le, Op::Gt, Op::Ge, Op::In, Op::And, Op::Or];
}

#[derive(Clone, Copy, Debug, PartialEq, Eq, Serialize, Deserialize)]
pub enum Mac {
    All,
    Exists,
    ExistsOne,
    /// the camel-case spelling `existsOne`
    ExistsOneCamel,
    Map,
    Filter,
}

impl Mac {
    pub fn name(self) -> &'static str {
        match self {
            Mac::All => "all",
            Mac::Exists => "exists",
            Mac::ExistsOne => "exists_one",
            Mac::ExistsOneCamel => "existsOne",
            Mac::Map => "map",
            Mac::Filter => "filter",
        }
    }
}

#[derive(Clone, Debug, Serialize, Deserialize)]
pub enum E {
    Lit(V),
    Var(String),
    Not(Box<E>),
    Neg(Box<E>),
    Bin(Op, Box<E>, Box<E>),
    Cond(Box<E>, Box<E>, Box<E>),
    Index(Box<E>, Box<E>),
    Select(Box<E>, String),
    Has(Box<E>, String),
    List(Vec<E>),
    Map(Vec<(E, E)>),
    /// name, receiver, arguments
    Call(String, Option<Box<E>>, Vec<E>),
    /// macro, range, iteration variable, body arguments (one, or two for `map(x, p, f)`)
    Macro(Mac, Box<E>, String, Vec<E>),
    Struct(String, Vec<(String, E)>),
    /// verbatim source text (used by the untyped generators for odd spellings)
    Raw(String),
}

pub fn b(e: E) -> Box<E> {
    Box::new(e)
}

impl E {
    pub fn lit(v: V) -> E {
        E::Lit(v)
    }
    pub fn var(n: &str) -> E {
        E::Var(n.to_string())
    }
    pub fn call(n: &str, args: Vec<E>) -> E {
        E::Call(n.to_string(), None, args)
    }
    pub fn mcall(recv: E, n: &str, args: Vec<E>) -> E {
        E::Call(n.to_string(), Some(b(recv)), args)
    }
    pub fn bin(op: Op, l: E, r: E) -> E {
        E::Bin(op, b(l), b(r))
    }

    pub fn depth(&self) -> usize {
        1 + self.children().iter().map(|c| c.depth()).max().unwrap_or(0)
    }
    pub fn size(&self) -> usize {
        1 + self.children().iter().map(|c| c.size()).sum::<usize>()
    }
    pub fn children(&self) -> Vec<&E> {
        match self {
            E::Lit(_) | E::Var(_) | E::Raw(_) => vec![],
            E::Not(a) | E::Neg(a) | E::Select(a, _) | E::Has(a, _) => vec![a],
            E::Bin(_, a, c) | E::Index(a, c) => vec![a, c],
            E::Cond(a, c, d) => vec![a, c, d],
            E::List(xs) => xs.iter().collect(),
            E::Map(es) => es.iter().flat_map(|(k, v)| [k, v]).collect(),
            E::Call(_, r, args) => r.iter().map(|x| &**x).chain(args.iter()).collect(),
            E::Macro(_, r, _, body) => std::iter::once(&**r).chain(body.iter()).collect(),
            E::Struct(_, fs) => fs.iter().map(|(_, v)| v).collect(),
        }
    }
    pub fn any(&self, p: &dyn Fn(&E) -> bool) -> bool {
        p(self) || self.children().iter().any(|c| c.any(p))
    }
    /// the same tree with every variable name passed through `f` (binders are not touched)
    pub fn map_vars(&self, f: &dyn Fn(&str) -> String) -> E {
        let m = |e: &E| Box::new(e.map_vars(f));
        match self {
            E::Lit(_) | E::Raw(_) => self.clone(),
            E::Var(n) => E::Var(f(n)),
            E::Not(a) => E::Not(m(a)),
            E::Neg(a) => E::Neg(m(a)),
            E::Select(a, n) => E::Select(m(a), n.clone()),
            E::Has(a, n) => E::Has(m(a), n.clone()),
            E::Bin(op, a, c) => E::Bin(*op, m(a), m(c)),
            E::Index(a, c) => E::Index(m(a), m(c)),
            E::Cond(a, c, d) => E::Cond(m(a), m(c), m(d)),
            E::List(xs) => E::List(xs.iter().map(|x| x.map_vars(f)).collect()),
            E::Map(es) => E::Map(es.iter().map(|(k, v)| (k.map_vars(f), v.map_vars(f))).collect()),
            E::Call(n, r, args) => E::Call(n.clone(), r.as_ref().map(|x| m(x)), args.iter().map(|x| x.map_vars(f)).collect()),
            E::Macro(mac, r, v, body) => E::Macro(*mac, m(r), v.clone(), body.iter().map(|x| x.map_vars(f)).collect()),
            E::Struct(n, fs) => E::Struct(n.clone(), fs.iter().map(|(k, v)| (k.clone(), v.map_vars(f))).collect()),
        }
    }
    pub fn count(&self, p: &dyn Fn(&E) -> bool) -> usize {
        (if p(self) { 1 } else { 0 }) + self.children().iter().map(|c| c.count(p)).sum::<usize>()
    }

    /// Fully parenthesised rendering: every operator application is wrapped in parentheses, so the
    /// result can stand in any operand position and the grouping is explicit.
    pub fn render(&self) -> String {
        match self {
            E::Lit(v) => lit::lit(v).unwrap_or_else(|| "null".to_string()),
            E::Var(n) => n.clone(),
            E::Raw(s) => s.clone(),
            E::Not(a) => format!("(!{})", a.render()),
            E::Neg(a) => {
                // a `-` directly before a numeric token would fold into the literal (`-0.f()` is `(-0).f()`)
                let r = a.render();
                if r.starts_with(|c: char| c.is_ascii_digit() || c == '.') {
                    format!("(-({r}))")
                } else {
                    format!("(-{r})")
                }
            }
            E::Bin(op, l, r) => format!("({} {} {})", l.render(), op.text(), r.render()),
            E::Cond(c, t, f) => format!("({} ? {} : {})", c.render(), t.render(), f.render()),
            E::Index(a, i) => format!("{}[{}]", a.render(), i.render()),
            E::Select(a, f) => format!("{}.{}", a.render(), f),
            E::Has(a, f) => format!("has({}.{})", a.render(), f),
            E::List(xs) => format!("[{}]", xs.iter().map(|x| x.render()).collect::<Vec<_>>().join(", ")),
            E::Map(es) => format!("{{{}}}", es.iter().map(|(k, v)| format!("{}: {}", k.render(), v.render())).collect::<Vec<_>>().join(", ")),
            E::Call(n, None, args) => format!("{}({})", n, args.iter().map(|x| x.render()).collect::<Vec<_>>().join(", ")),
            E::Call(n, Some(r), args) => format!("{}.{}({})", r.render(), n, args.iter().map(|x| x.render()).collect::<Vec<_>>().join(", ")),
            E::Macro(m, r, v, body) => format!("{}.{}({}, {})", r.render(), m.name(), v, body.iter().map(|x| x.render()).collect::<Vec<_>>().join(", ")),
            E::Struct(n, fs) => format!("{}{{{}}}", n, fs.iter().map(|(k, v)| format!("{}: {}", k, v.render())).collect::<Vec<_>>().join(", ")),
        }
    }
}
