//! Bridge between a libFuzzer target (or `verif fuzz-case`) and one random family of one property.
//!
//! The property module runs on a thread of its own (8 MiB stack, as every exploration does) in `Mode::Fuzz`; the only
//! active family blocks in `Runner::fuzz_loop` and serves byte buffers sent from the fuzzing thread.  Coverage counters are
//! process-wide, so libFuzzer's feedback sees the work done on the other thread.
use crate::engine::{self, FuzzReply, FuzzReq, Mode, Runner, Tier};
use std::path::PathBuf;
use std::sync::mpsc::{channel, Receiver, Sender};
use std::sync::Mutex;

pub struct Bridge {
    tx: Mutex<Sender<FuzzReq>>,
    rx: Mutex<Receiver<FuzzReply>>,
}

pub fn start(prop: &str, family: &str) -> Bridge {
    let id: &'static str = crate::props::ALL.iter().copied().find(|p| *p == prop).unwrap_or_else(|| {
        eprintln!("FUZZ-BRIDGE unknown property {prop}");
        std::process::exit(2)
    });
    engine::install_panic_hook();
    std::env::set_var("VERIF_NO_JOURNAL", "1");
    let (req_tx, req_rx) = channel::<FuzzReq>();
    let (rep_tx, rep_rx) = channel::<FuzzReply>();
    *engine::FUZZ_BRIDGE.lock().unwrap() = Some((req_rx, rep_tx));
    let family = family.to_string();
    let fam2 = family.clone();
    let root = PathBuf::from(std::env::var("VERIF_ROOT").unwrap_or_else(|_| "/verif".to_string()));
    std::thread::Builder::new()
        .stack_size(engine::STACK)
        .spawn(move || {
            let mut r = Runner::new(id, Tier::Quick, 0, root, Mode::Fuzz { family }, 0, 1);
            crate::props::run(id, &mut r);
            if !engine::FUZZ_FAMILY_SEEN.load(std::sync::atomic::Ordering::SeqCst) {
                eprintln!("FUZZ-BRIDGE property {id} has no random family named '{fam2}'");
                std::process::exit(2);
            }
        })
        .expect("spawn fuzz worker");
    Bridge { tx: Mutex::new(req_tx), rx: Mutex::new(rep_rx) }
}

impl Bridge {
    pub fn call(&self, data: &[u8], emit_only: bool) -> FuzzReply {
        if self.tx.lock().unwrap().send(FuzzReq { data: data.to_vec(), emit_only }).is_err() {
            eprintln!("FUZZ-BRIDGE worker thread is gone");
            std::process::exit(2);
        }
        match self.rx.lock().unwrap().recv() {
            Ok(r) => r,
            Err(_) => {
                eprintln!("FUZZ-BRIDGE worker thread ended without a reply");
                std::process::exit(2);
            }
        }
    }
}
