//! C19 — reported references cover every name a program can look up.

use crate::chooser::Chooser;
use crate::engine::{fail, guard, pass_n, Outcome, Runner};
use crate::gen::untyped::{gen_untyped, Pool};
use crate::model::expr::E;
use crate::model::V;
use crate::sut::{self, to_cel};
use cel_interpreter::extractors::Arguments;
use cel_interpreter::{Context, ExecutionError, ResolveResult, Value};
use serde::{Deserialize, Serialize};
use std::collections::BTreeSet;

pub const VARS: [&str; 14] = ["a", "b", "c", "x", "y", "size", "int", "has", "all", "t0", "v_1", "k", ".a", ".size"];
pub const FUNCS: [&str; 18] = ["f", "g", "size", "int", "contains", "h", "max", "m", "dyn", "type", "all", "map", ".f", ".size", "startsWith", "matches", "getHours", "duration"];

#[derive(Clone, Debug, Serialize, Deserialize)]
pub struct Case {
    pub expr: E,
    /// bit i set: the i-th reported variable / function (sorted) is defined in the partial context
    pub var_mask: u64,
    pub fn_mask: u64,
    pub base_default: bool,
    pub value_kind: u8,
}

fn var_value(kind: u8, i: usize) -> V {
    match (kind as usize + i) % 5 {
        0 => V::Int(1),
        1 => V::List(vec![V::Int(1), V::Int(2)]),
        2 => V::Map(vec![(V::s("a"), V::Int(1)), (V::s("k"), V::Bool(true))]),
        3 => V::s("str"),
        _ => V::Bool(true),
    }
}

fn stub(ctx: &mut Context, name: &str) {
    ctx.add_function(name, |Arguments(args): Arguments| -> ResolveResult { Ok(Value::Int(args.len() as i64)) });
}

fn positions(e: &E, tag: &'static str, out: &mut Vec<&'static str>) {
    match e {
        E::Var(_) => out.push(tag),
        E::Lit(_) | E::Raw(_) => {}
        E::Not(a) | E::Neg(a) => positions(a, "var-in:operand", out),
        E::Bin(_, l, r) => {
            positions(l, "var-in:operand", out);
            positions(r, "var-in:operand", out);
        }
        E::Cond(c, t, f) => {
            positions(c, "var-in:condition", out);
            positions(t, "var-in:branch", out);
            positions(f, "var-in:branch", out);
        }
        E::Index(a, i) => {
            positions(a, "var-in:indexed", out);
            positions(i, "var-in:index", out);
        }
        E::Select(a, _) => positions(a, "var-in:select-operand", out),
        E::Has(a, _) => positions(a, "var-in:has-argument", out),
        E::List(xs) => xs.iter().for_each(|x| positions(x, "var-in:list-element", out)),
        E::Map(es) => es.iter().for_each(|(k, v)| {
            positions(k, "var-in:map-key", out);
            positions(v, "var-in:map-value", out);
        }),
        E::Call(_, r, args) => {
            if let Some(r) = r {
                positions(r, "var-in:receiver", out);
            }
            args.iter().for_each(|x| positions(x, "var-in:argument", out));
        }
        E::Macro(_, r, _, body) => {
            positions(r, "var-in:macro-range", out);
            body.iter().for_each(|x| positions(x, "var-in:macro-body", out));
        }
        E::Struct(_, fs) => fs.iter().for_each(|(_, v)| positions(v, "var-in:struct-field", out)),
    }
}

fn written_identifiers(e: &E, out: &mut BTreeSet<String>) {
    match e {
        E::Var(n) => {
            // `.a` is the identifier a, written root-qualified
            out.insert(n.trim_start_matches('.').to_string());
        }
        E::Macro(_, _, v, _) => {
            out.insert(v.clone());
        }
        _ => {}
    }
    for c in e.children() {
        written_identifiers(c, out);
    }
}

pub fn check(c: &Case) -> Outcome {
    let src = c.expr.render();
    let prog = match sut::compile(&src) {
        Err(p) => return fail(format!("compile of `{src}` {}", p.short())),
        Ok(Err(_)) => return Outcome::Skip("does-not-compile"),
        Ok(Ok(p)) => p,
    };
    let refs = |p: &cel_interpreter::Program| -> (BTreeSet<String>, BTreeSet<String>) {
        let r = p.references();
        (r.variables().iter().map(|s| s.to_string()).collect(), r.functions().iter().map(|s| s.to_string()).collect())
    };
    let (vars, funcs) = match guard(|| refs(&prog)) {
        Ok(x) => x,
        Err(p) => return fail(format!("references() of `{src}` {}", p.short())),
    };
    // every reported variable is an identifier written in the source; accumulators are never reported
    let mut written = BTreeSet::new();
    written_identifiers(&c.expr, &mut written);
    for v in &vars {
        if v.starts_with('@') {
            return fail(format!("`{src}`: references() reports the macro-internal name {v}"));
        }
        if !written.contains(v) {
            return fail(format!("`{src}`: references() reports variable {v:?}, which does not occur as an identifier in the source (identifiers: {written:?})"));
        }
    }
    let vlist: Vec<&String> = vars.iter().collect();
    let flist: Vec<&String> = funcs.iter().collect();
    let build = |all: bool| -> Context<'static> {
        let mut ctx = if c.base_default { Context::default() } else { Context::empty() };
        for (i, v) in vlist.iter().enumerate() {
            if all || c.var_mask & (1 << (i % 64)) != 0 {
                ctx.add_variable_from_value(v.as_str(), to_cel(&var_value(c.value_kind, i)).unwrap());
            }
        }
        for (i, f) in flist.iter().enumerate() {
            // on a Context::default() base the built-ins are already defined: half of the cases leave them in place
            // instead of replacing them by stubs
            if c.base_default && c.value_kind % 2 == 0 && crate::model::eval::BUILTINS.contains(&f.as_str()) {
                continue;
            }
            if all || c.fn_mask & (1 << (i % 64)) != 0 {
                stub(&mut ctx, f);
            }
        }
        ctx
    };
    let mut undeclared_seen = false;
    let mut panics = 0;
    // partial context
    let ctx = build(false);
    match guard(|| prog.execute(&ctx)) {
        Err(_) => panics += 1,
        Ok(Err(ExecutionError::UndeclaredReference(n))) => {
            undeclared_seen = true;
            if !vars.contains(n.as_str()) && !funcs.contains(n.as_str()) {
                return fail(format!("`{src}`: execution failed with an undeclared reference to {n:?}, which references() does not report (variables {vars:?}, functions {funcs:?})"));
            }
        }
        Ok(_) => {}
    }
    // complete context: nothing may be undeclared
    let ctx_all = build(true);
    match guard(|| prog.execute(&ctx_all)) {
        Err(_) => panics += 1,
        Ok(Err(ExecutionError::UndeclaredReference(n))) => {
            return fail(format!("`{src}`: every reported variable {vars:?} and function {funcs:?} is defined, yet execution fails with an undeclared reference to {n:?}"));
        }
        Ok(_) => {}
    }
    // the *same* context, completed after the program has already failed against it once: the host defines what was
    // missing and executes again
    {
        let mut ctx = build(false);
        let first = guard(|| prog.execute(&ctx));
        if matches!(first, Ok(Err(ExecutionError::UndeclaredReference(_)))) {
            for (i, v) in vlist.iter().enumerate() {
                if c.var_mask & (1 << (i % 64)) == 0 {
                    ctx.add_variable_from_value(v.as_str(), to_cel(&var_value(c.value_kind, i)).unwrap());
                }
            }
            for (i, f) in flist.iter().enumerate() {
                if c.fn_mask & (1 << (i % 64)) == 0 {
                    stub(&mut ctx, f);
                }
            }
            if let Ok(Err(ExecutionError::UndeclaredReference(n))) = guard(|| prog.execute(&ctx)) {
                return fail(format!("`{src}`: the program failed against a partial context; the host then defined every missing reported name ({vars:?} / {funcs:?}) in that same context, yet execution still fails with an undeclared reference to {n:?}"));
            }
        }
    }
    // the report is a function of the program alone
    match guard(|| refs(&prog)) {
        Ok((v2, f2)) => {
            if v2 != vars || f2 != funcs {
                return fail(format!("`{src}`: references() changed after execution: {vars:?}/{funcs:?} -> {v2:?}/{f2:?}"));
            }
        }
        Err(p) => return fail(format!("references() of `{src}` {}", p.short())),
    }
    let mut pos = vec![];
    positions(&c.expr, "var-in:top", &mut pos);
    pos.sort();
    pos.dedup();
    let distinct_names = vars.len() + funcs.iter().filter(|f| !f.starts_with('_') && !f.starts_with('@') && !f.ends_with('_')).count();
    let nt = distinct_names >= 3 && pos.len() >= 3 && undeclared_seen;
    let mut cl = pos;
    if undeclared_seen {
        cl.push("partial-context-run-ended-undeclared");
    }
    if panics > 0 {
        cl.push("execution-panicked(ignored-here,C02-owns)");
    }
    pass_n(nt, cl)
}

pub fn run(r: &mut Runner) {
    r.rule = "cases: (untyped program of depth <= 7, or a left-recursive chain of 30-90 sums / selects / indexes / method calls, whose identifiers and function names come from 12-name pools, some colliding with built-ins, placed in every syntactic position; which reported names a \
              partial context defines; Context::default()- or Context::empty()-based). Each program runs against the partial context and against a context defining every reported variable and \
              function (stubs taking Arguments). Oracle: UndeclaredReference(n) implies n is reported; with everything reported defined the result is never UndeclaredReference; every reported variable is an \
              identifier written in the source and none starts with '@'; references() is the same before and after execution. Non-trivial: >= 3 distinct names in >= 3 distinct positions and the partial run ended in UndeclaredReference; distinct by (source, masks)."
        .into();
    let mut pool = Pool::c02();
    pool.vars = VARS.iter().map(|s| s.to_string()).collect();
    pool.funcs = FUNCS.iter().map(|s| s.to_string()).collect();
    pool.raw_literals = false;
    let n = r.tier.n(25_000, 1_000_000);
    r.random(
        "random-programs",
        700,
        n,
        |u: &mut Chooser| {
            let depth = 1 + u.below(6);
            Case { expr: gen_untyped(u, depth, &pool), var_mask: u.bits64(), fn_mask: u.bits64() | if u.flip() { u64::MAX } else { 0 }, base_default: u.flip(), value_kind: u.below(5) as u8 }
        },
        check,
    );
    // long left-recursive chains (sums, selects, indexes, method calls): the trees are 30-90 levels deep although the text nests nothing
    r.random(
        "long-chains",
        40,
        n / 10,
        |u: &mut Chooser| {
            use crate::model::expr::{b, Op};
            let len = 30 + u.below(61);
            let name = |k: usize| E::Var(format!("v{k}"));
            let mut e = name(0);
            let kind = u.below(5);
            for k in 1..len {
                let step = if kind == 4 { u.below(4) } else { kind };
                e = match step {
                    0 => E::bin(*u.pick(&[Op::Add, Op::Sub, Op::Mul]), e, name(k)),
                    1 => E::Select(b(e), u.pick(&["a", "k", "f"]).to_string()),
                    2 => E::Index(b(e), b(if u.flip() { name(k) } else { E::Lit(V::Int(0)) })),
                    _ => E::Call(u.pick(&["f", "g", "size"]).to_string(), Some(b(e)), if u.flip() { vec![name(k)] } else { vec![] }),
                };
            }
            // sometimes the chain hangs below another node
            if u.chance(1, 3) {
                e = E::List(vec![E::Var("w".into()), e]);
            }
            Case { expr: e, var_mask: u.bits64() & u.bits64(), fn_mask: u.bits64() | if u.flip() { u64::MAX } else { 0 }, base_default: u.flip(), value_kind: u.below(5) as u8 }
        },
        check,
    );
    for p in ["var-in:receiver", "var-in:argument", "var-in:index", "var-in:map-key", "var-in:map-value", "var-in:list-element", "var-in:struct-field", "var-in:select-operand", "var-in:macro-range", "var-in:macro-body", "var-in:has-argument", "var-in:operand", "var-in:condition"] {
        r.expect_class(p, 1000);
    }
    r.expect_class("partial-context-run-ended-undeclared", 5000);
}
