//! C18 — exporting a CEL value to JSON is total and faithful.

use crate::chooser::Chooser;
use crate::engine::{fail, guard, pass_n, Outcome, Runner};
use crate::gen::{gen_f64, gen_i64, gen_string, gen_u64, gen_value, ValOpts};
use crate::model::cal::{fields, parse_rfc3339};
use crate::model::eval::show_key;
use crate::model::{F, V};
use crate::sut::{from_cel, to_cel};
use serde::{Deserialize, Serialize};
use serde_json::Value as J;

/// RFC 4648 base64 with padding, written here so that the oracle does not share the base64 crate
pub fn base64(b: &[u8]) -> String {
    const A: &[u8; 64] = b"ABCDEFGHIJKLMNOPQRSTUVWXYZabcdefghijklmnopqrstuvwxyz0123456789+/";
    let mut out = String::new();
    for chunk in b.chunks(3) {
        let n = (chunk[0] as u32) << 16 | (*chunk.get(1).unwrap_or(&0) as u32) << 8 | *chunk.get(2).unwrap_or(&0) as u32;
        out.push(A[(n >> 18) as usize & 63] as char);
        out.push(A[(n >> 12) as usize & 63] as char);
        out.push(if chunk.len() > 1 { A[(n >> 6) as usize & 63] as char } else { '=' });
        out.push(if chunk.len() > 2 { A[n as usize & 63] as char } else { '=' });
    }
    out
}

fn key_text(k: &V) -> String {
    match k {
        V::UInt(u) => u.to_string(),
        other => show_key(other),
    }
}

/// must `json()` fail for this value?
pub fn excluded(v: &V) -> bool {
    v.any(&|x| match x {
        V::Func(..) => true,
        V::Dur(..) => {
            let ns = x.dur_total_ns().unwrap();
            ns > i64::MAX as i128 || ns < i64::MIN as i128
        }
        _ => false,
    })
}

pub fn matches(v: &V, j: &J) -> Result<(), String> {
    let bad = |what: &str| Err(format!("{what}: value {} exported as {}", crate::sut::show_v(v), crate::sut::trunc(&j.to_string(), 200)));
    match (v, j) {
        (V::Null, J::Null) => Ok(()),
        (V::Bool(a), J::Bool(b)) if a == b => Ok(()),
        (V::Int(i), J::Number(n)) if !n.is_f64() && n.as_i64() == Some(*i) => Ok(()),
        (V::UInt(u), J::Number(n)) if !n.is_f64() && n.as_u64() == Some(*u) => Ok(()),
        (V::Float(f), J::Null) if !f.0.is_finite() => Ok(()),
        (V::Float(f), J::Number(n)) if f.0.is_finite() && n.is_f64() && n.as_f64() == Some(f.0) => Ok(()),
        (V::Str(s), J::String(t)) if s == t => Ok(()),
        (V::Bytes(b), J::String(t)) if *t == base64(b) => Ok(()),
        (V::List(xs), J::Array(ys)) if xs.len() == ys.len() => {
            for (x, y) in xs.iter().zip(ys) {
                matches(x, y)?;
            }
            Ok(())
        }
        (V::Map(es), J::Object(o)) => {
            let mut texts: Vec<String> = es.iter().map(|(k, _)| key_text(k)).collect();
            texts.sort();
            texts.dedup();
            if texts.len() != o.len() || !texts.iter().all(|t| o.contains_key(t)) {
                return bad("object keys are not the texts of the map keys");
            }
            for t in &texts {
                // colliding key texts: the entry is one of the candidates
                let cands: Vec<&V> = es.iter().filter(|(k, _)| key_text(k) == *t).map(|(_, v)| v).collect();
                if !cands.iter().any(|c| matches(c, &o[t]).is_ok()) {
                    return matches(cands[0], &o[t]);
                }
            }
            Ok(())
        }
        (V::Dur(..), J::Number(n)) if !n.is_f64() && n.as_i64().map(|x| x as i128) == v.dur_total_ns() => Ok(()),
        (V::Ts(secs, nanos, off), J::String(t)) => {
            let year = fields(*secs, *nanos, *off).year;
            if off % 60 != 0 || !(1..=9999).contains(&year) {
                return Ok(()); // RFC 3339 cannot spell these; only "a string" is asserted
            }
            match parse_rfc3339(t) {
                Some((s2, n2, o2)) if s2 == *secs && n2 == *nanos && o2 == *off => Ok(()),
                other => Err(format!("timestamp {v:?} exported as {t:?}, which reads back as {other:?}")),
            }
        }
        _ => bad("not the structurally corresponding document"),
    }
}

fn json_native(v: &V) -> bool {
    match v {
        V::Null | V::Bool(_) | V::Int(_) | V::UInt(_) | V::Str(_) => true,
        V::Float(f) => f.0.is_finite(),
        V::List(xs) => xs.iter().all(json_native),
        V::Map(es) => es.iter().all(|(k, v)| matches!(k, V::Str(_)) && json_native(v)),
        _ => false,
    }
}

#[derive(Clone, Debug, Serialize, Deserialize)]
pub struct Case {
    pub v: V,
}

pub fn check(c: &Case) -> Outcome {
    let Some(cv) = to_cel(&c.v) else { return Outcome::Skip("not-representable-in-chrono") };
    let r = guard(|| cv.json().map_err(|e| e.to_string()));
    let r = match r {
        Err(p) => return fail(format!("json() of {:?} {}", c.v, p.short())),
        Ok(r) => r,
    };
    let ex = excluded(&c.v);
    let mut cl = vec![];
    match (&r, ex) {
        (Ok(j), true) => return fail(format!("json() of {:?} (contains a function value or a duration beyond 64-bit nanoseconds) must be an error, got {}", c.v, crate::sut::trunc(&j.to_string(), 200))),
        (Err(e), false) => return fail(format!("json() of {:?} must succeed, got error {e}", c.v)),
        (Err(_), true) => cl.push(if matches!(c.v, V::Func(..) | V::Dur(..)) { "excluded-top-level" } else { "excluded-nested-in-collection" }),
        (Ok(j), false) => {
            if let Err(e) = matches(&c.v, j) {
                return fail(e);
            }
            cl.push("exported");
            if json_native(&c.v) {
                let back = guard(|| cel_interpreter::to_value(j));
                match back {
                    Err(p) => return fail(format!("to_value of the exported document {j} {}", p.short())),
                    Ok(Err(e)) => return fail(format!("importing the exported document {j} fails: {e}")),
                    Ok(Ok(b)) => {
                        if b != cv {
                            return fail(format!("importing the exported document {j} gives {:?}, not a value equal to the original {:?}", from_cel(&b), c.v));
                        }
                        cl.push("import-round-trip");
                    }
                }
            }
        }
    }
    let colliding = c.v.any(&|x| matches!(x, V::Map(es) if { let mut t: Vec<String> = es.iter().map(|(k, _)| key_text(k)).collect(); let n = t.len(); t.sort(); t.dedup(); t.len() < n }));
    if colliding {
        cl.push("colliding-key-texts");
    }
    if c.v.any(&|x| matches!(x, V::Float(f) if !f.0.is_finite())) {
        cl.push("non-finite-double");
    }
    if c.v.any(&|x| matches!(x, V::Bytes(_))) {
        cl.push("bytes");
    }
    if c.v.any(&|x| matches!(x, V::Ts(..))) {
        cl.push("timestamp");
    }
    if c.v.any(&|x| matches!(x, V::Dur(..))) {
        cl.push("duration");
    }
    let nt = c.v.depth() >= 2 || colliding || cl.len() > 1;
    pass_n(nt, cl)
}

fn gen_native(u: &mut Chooser, depth: usize) -> V {
    let k = if depth == 0 { u.below(6) } else { u.below(8) };
    match k {
        0 => V::Null,
        1 => V::Bool(u.flip()),
        2 => V::Int(gen_i64(u)),
        3 => V::UInt(gen_u64(u)),
        4 => {
            let f = gen_f64(u);
            V::Float(F(if f.is_finite() { f } else { 2.5 }))
        }
        5 => V::Str(gen_string(u)),
        6 => V::List((0..u.below(4)).map(|_| gen_native(u, depth - 1)).collect()),
        _ => {
            let mut es: Vec<(V, V)> = vec![];
            for _ in 0..u.below(4) {
                let k = V::Str(gen_string(u));
                if !es.iter().any(|(k2, _)| crate::model::same(k2, &k)) {
                    es.push((k, gen_native(u, depth - 1)));
                }
            }
            V::Map(es)
        }
    }
}

pub fn run(r: &mut Runner) {
    r.rule = "cases: CEL values of every variant to depth 5 - function values nested anywhere, durations on both sides of +-2^63 ns, NaN / +-inf, empty collections, invalid-UTF-8 bytes, timestamps with offsets, maps whose int / uint / bool / string keys render \
              to the same text - plus JSON-native values for the import round trip. Oracle: json() returns Err iff the value contains a function or an out-of-range duration and never panics; otherwise the document is the structurally corresponding one \
              (arrays, objects keyed by the key's text with one entry per distinct text, RFC 4648 base64 from an independent encoder, timestamps read back by an independent RFC 3339 reader to the same instant and offset, durations as integer nanoseconds, non-finite doubles null, \
              integers as JSON integers and doubles as JSON doubles); to_value(json(v)) == v for JSON-native originals. Non-trivial: depth >= 2, an excluded value, colliding keys, a non-finite double, bytes / timestamp / duration present; distinct by value."
        .into();
    r.assumptions = vec!["timestamps whose offset has a seconds part or whose local year is outside 0001-9999 are only required to export as a string".into()];
    let mut fixed: Vec<Case> = vec![];
    for b in [vec![], vec![0u8], vec![0, 1], vec![0, 1, 2], vec![255, 254, 253, 252], b"hello world".to_vec(), vec![0xfb, 0xff, 0xbe], vec![62 << 2, 0, 63]] {
        fixed.push(Case { v: V::Bytes(b) });
    }
    let i64max = i64::MAX as i128;
    for ns in [0, 1, -1, i64max, -i64max - 1, i64max + 1, -i64max - 2, 1_000_000_000] {
        fixed.push(Case { v: V::dur_ns(ns) });
        fixed.push(Case { v: V::List(vec![V::Int(1), V::dur_ns(ns)]) });
        fixed.push(Case { v: V::Map(vec![(V::s("d"), V::List(vec![V::dur_ns(ns)]))]) });
    }
    for f in [V::Func("size".into(), None), V::Func("f".into(), Some(Box::new(V::Int(1))))] {
        fixed.push(Case { v: f.clone() });
        fixed.push(Case { v: V::List(vec![V::Null, f.clone()]) });
        fixed.push(Case { v: V::Map(vec![(V::Int(1), V::Int(1)), (V::s("f"), V::List(vec![V::Map(vec![(V::Bool(true), f.clone())])]))]) });
    }
    fixed.push(Case { v: V::Map(vec![(V::Int(1), V::s("int")), (V::UInt(1), V::s("uint")), (V::s("1"), V::s("str"))]) });
    fixed.push(Case { v: V::Map(vec![(V::Bool(true), V::Int(1)), (V::s("true"), V::Int(2))]) });
    for f in [f64::NAN, f64::INFINITY, f64::NEG_INFINITY, -0.0, 0.0, 1e300, 5e-324, 1.0] {
        fixed.push(Case { v: V::f(f) });
        fixed.push(Case { v: V::List(vec![V::f(f)]) });
    }
    for (s, n, o) in [(0i64, 0u32, 0i32), (1685232000, 123_456_789, 19800), (-62135596800, 0, 0), (253402300799, 999_999_999, 0), (951782400, 1, -43200)] {
        fixed.push(Case { v: V::Ts(s, n, o) });
    }
    fixed.extend([V::Null, V::List(vec![]), V::Map(vec![]), V::s(""), V::Int(i64::MIN), V::UInt(u64::MAX)].into_iter().map(|v| Case { v }));
    r.sweep("fixed-values", fixed, check);
    let n = r.tier.n(40_000, 1_500_000);
    r.random("random-values", 300, n, |u: &mut Chooser| {
        let d = u.below(6);
        Case { v: gen_value(u, d, ValOpts::ALL) }
    }, check);
    r.random("json-native-values", 200, n / 2, |u: &mut Chooser| {
        let d = u.below(5);
        Case { v: gen_native(u, d) }
    }, check);
    // long collections exported one after the other (allocations of the same size come and go)
    r.random("long-lists-and-maps-one-after-the-other", 40, n / 4, |u: &mut Chooser| {
        let len = 8 + u.below(17);
        if u.chance(1, 4) {
            Case { v: V::Map((0..len).map(|i| (V::Int(i as i64), V::Int(u.range(-9, 9) as i64))).collect()) }
        } else {
            let kind = u.below(3);
            Case { v: V::List((0..len).map(|_| match kind { 0 => V::Int(u.range(-99, 99) as i64), 1 => V::Str(gen_string(u)), _ => gen_native(u, 1) }).collect()) }
        }
    }, check);
    for c in ["excluded-nested-in-collection", "colliding-key-texts", "non-finite-double", "bytes", "timestamp", "duration", "import-round-trip"] {
        r.expect_class(c, 300);
    }
}
