//! C04 — parsing preserves CEL precedence, associativity and grouping (AST round trip).

use crate::chooser::Chooser;
use crate::engine::{fail, guard, pass_n, Outcome, Runner, Tier};
use crate::gen::untyped::{gen_untyped, Pool};
use crate::model::expr::{b, Mac, Op, E};
use crate::model::{lit, V};
use cel_parser::ast::{CallExpr, ComprehensionExpr, EntryExpr, Expr, IdedEntryExpr, IdedExpr, ListExpr, MapEntryExpr, MapExpr, SelectExpr, StructExpr, StructFieldExpr};
use cel_parser::reference::Val;
use serde::{Deserialize, Serialize};

// ------------------------------------------------------------------------------------------------
// expected AST, built directly from the tree (never through the parser)

fn ided(expr: Expr) -> IdedExpr {
    IdedExpr { id: 0, expr }
}
fn call(name: &str, target: Option<IdedExpr>, args: Vec<IdedExpr>) -> IdedExpr {
    ided(Expr::Call(CallExpr { func_name: name.to_string(), target: target.map(Box::new), args }))
}
fn ident(n: &str) -> IdedExpr {
    ided(Expr::Ident(n.to_string()))
}
fn litv(v: Val) -> IdedExpr {
    ided(Expr::Literal(v))
}

pub fn op_name(op: Op) -> &'static str {
    match op {
        Op::Add => "_+_",
        Op::Sub => "_-_",
        Op::Mul => "_*_",
        Op::Div => "_/_",
        Op::Rem => "_%_",
        Op::Eq => "_==_",
        Op::Ne => "_!=_",
        Op::Lt => "_<_",
        Op::Le => "_<=_",
        Op::Gt => "_>_",
        Op::Ge => "_>=_",
        Op::In => "@in",
        Op::And => "_&&_",
        Op::Or => "_||_",
    }
}

fn val_of(v: &V) -> Option<Val> {
    Some(match v {
        V::Null => Val::Null,
        V::Bool(b) => Val::Boolean(*b),
        V::Int(i) => Val::Int(*i),
        V::UInt(u) => Val::UInt(*u),
        V::Float(f) => Val::Double(f.0),
        V::Str(s) => Val::String(s.clone()),
        V::Bytes(b) => Val::Bytes(b.clone()),
        _ => return None,
    })
}

/// the comprehension skeleton each macro expands to, as documented in antlr/src/macros.rs
fn comprehension(m: Mac, range: IdedExpr, var: &str, body: Vec<IdedExpr>) -> IdedExpr {
    let acc = || ident("@result");
    let tru = || litv(Val::Boolean(true));
    let (init, cond, step, result) = match (m, body.len()) {
        (Mac::All, _) => (tru(), call("@not_strictly_false", None, vec![acc()]), call("_&&_", None, vec![acc(), body[0].clone()]), acc()),
        (Mac::Exists, _) => (
            litv(Val::Boolean(false)),
            call("@not_strictly_false", None, vec![call("!_", None, vec![acc()])]),
            call("_||_", None, vec![acc(), body[0].clone()]),
            acc(),
        ),
        (Mac::ExistsOne | Mac::ExistsOneCamel, _) => (
            litv(Val::Int(0)),
            tru(),
            call("_?_:_", None, vec![body[0].clone(), call("_+_", None, vec![acc(), litv(Val::Int(1))]), acc()]),
            call("_==_", None, vec![acc(), litv(Val::Int(1))]),
        ),
        (Mac::Map, 1) => (ided(Expr::List(ListExpr { elements: vec![] })), tru(), call("_+_", None, vec![acc(), ided(Expr::List(ListExpr { elements: vec![body[0].clone()] }))]), acc()),
        (Mac::Map, _) => (
            ided(Expr::List(ListExpr { elements: vec![] })),
            tru(),
            call("_?_:_", None, vec![body[0].clone(), call("_+_", None, vec![acc(), ided(Expr::List(ListExpr { elements: vec![body[1].clone()] }))]), acc()]),
            acc(),
        ),
        (Mac::Filter, _) => (
            ided(Expr::List(ListExpr { elements: vec![] })),
            tru(),
            call("_?_:_", None, vec![body[0].clone(), call("_+_", None, vec![acc(), ided(Expr::List(ListExpr { elements: vec![ident(var)] }))]), acc()]),
            acc(),
        ),
    };
    ided(Expr::Comprehension(ComprehensionExpr {
        iter_range: Box::new(range),
        iter_var: var.to_string(),
        iter_var2: None,
        accu_var: "@result".to_string(),
        accu_init: Box::new(init),
        loop_cond: Box::new(cond),
        loop_step: Box::new(step),
        result: Box::new(result),
    }))
}

/// `minimal`: prefix runs of the same operator are written as runs (`!!a`), so an even run cancels
pub fn expected(e: &E, minimal: bool) -> Option<IdedExpr> {
    let x = |e: &E| expected(e, minimal);
    Some(match e {
        E::Lit(v) => litv(val_of(v)?),
        E::Var(n) => ident(n),
        E::Raw(_) => return None,
        E::Not(_) | E::Neg(_) => {
            let is_not = matches!(e, E::Not(_));
            // length of the run as it is written
            let mut n = 1;
            let mut inner: &E = match e {
                E::Not(a) | E::Neg(a) => a,
                _ => unreachable!(),
            };
            if minimal {
                loop {
                    match (is_not, inner) {
                        (true, E::Not(a)) | (false, E::Neg(a)) => {
                            n += 1;
                            inner = a;
                        }
                        _ => break,
                    }
                }
            }
            let operand = x(inner)?;
            if n % 2 == 0 {
                operand
            } else {
                call(if is_not { "!_" } else { "-_" }, None, vec![operand])
            }
        }
        E::Bin(op, l, r) => call(op_name(*op), None, vec![x(l)?, x(r)?]),
        E::Cond(c, t, f) => call("_?_:_", None, vec![x(c)?, x(t)?, x(f)?]),
        E::Index(a, i) => call("_[_]", None, vec![x(a)?, x(i)?]),
        E::Select(a, f) => ided(Expr::Select(SelectExpr { operand: Box::new(x(a)?), field: f.clone(), test: false })),
        E::Has(a, f) => ided(Expr::Select(SelectExpr { operand: Box::new(x(a)?), field: f.clone(), test: true })),
        E::List(xs) => ided(Expr::List(ListExpr { elements: xs.iter().map(x).collect::<Option<Vec<_>>>()? })),
        E::Map(es) => {
            let mut entries = vec![];
            for (k, v) in es {
                entries.push(IdedEntryExpr { id: 0, expr: EntryExpr::MapEntry(MapEntryExpr { key: x(k)?, value: x(v)?, optional: false }) });
            }
            ided(Expr::Map(MapExpr { entries }))
        }
        E::Call(n, r, args) => {
            // a call that has a macro's name, receiver-presence and arity *is* that macro (the generator writes
            // macros as E::Macro / E::Has); every other shape is an ordinary call, whatever its name
            let is_macro_shape = match (n.as_str(), r.is_some(), args.len()) {
                ("has", false, 1) => true,
                ("all" | "exists" | "exists_one" | "existsOne" | "filter", true, 2) => true,
                ("map", true, 2 | 3) => true,
                _ => false,
            };
            if is_macro_shape {
                return None;
            }
            let t = match r {
                Some(r) => Some(x(r)?),
                None => None,
            };
            call(n, t, args.iter().map(x).collect::<Option<Vec<_>>>()?)
        }
        E::Macro(m, r, v, body) => comprehension(*m, x(r)?, v, body.iter().map(x).collect::<Option<Vec<_>>>()?),
        E::Struct(n, fs) => {
            let mut entries = vec![];
            for (k, v) in fs {
                entries.push(IdedEntryExpr { id: 0, expr: EntryExpr::StructField(StructFieldExpr { field: k.clone(), value: x(v)?, optional: false }) });
            }
            ided(Expr::Struct(StructExpr { type_name: n.clone(), entries }))
        }
    })
}

pub fn zero_ids(e: &mut IdedExpr) {
    e.id = 0;
    match &mut e.expr {
        Expr::Call(c) => {
            if let Some(t) = &mut c.target {
                zero_ids(t);
            }
            c.args.iter_mut().for_each(zero_ids);
        }
        Expr::Comprehension(c) => {
            for p in [&mut c.iter_range, &mut c.accu_init, &mut c.loop_cond, &mut c.loop_step, &mut c.result] {
                zero_ids(p);
            }
        }
        Expr::List(l) => l.elements.iter_mut().for_each(zero_ids),
        Expr::Map(m) => m.entries.iter_mut().for_each(zero_entry),
        Expr::Struct(s) => s.entries.iter_mut().for_each(zero_entry),
        Expr::Select(s) => zero_ids(&mut s.operand),
        Expr::Ident(_) | Expr::Literal(_) | Expr::Unspecified => {}
    }
}
fn zero_entry(e: &mut IdedEntryExpr) {
    e.id = 0;
    match &mut e.expr {
        EntryExpr::StructField(f) => zero_ids(&mut f.value),
        EntryExpr::MapEntry(m) => {
            zero_ids(&mut m.key);
            zero_ids(&mut m.value);
        }
    }
}

/// flatten chains of the same logical operator into a right-nested canonical form (operand order is
/// what the property promises; the balanced shape is an implementation choice)
pub fn flatten_logic(e: &mut IdedExpr) {
    // children first
    match &mut e.expr {
        Expr::Call(c) => {
            if let Some(t) = &mut c.target {
                flatten_logic(t);
            }
            c.args.iter_mut().for_each(flatten_logic);
        }
        Expr::Comprehension(c) => {
            for p in [&mut c.iter_range, &mut c.accu_init, &mut c.loop_cond, &mut c.loop_step, &mut c.result] {
                flatten_logic(p);
            }
        }
        Expr::List(l) => l.elements.iter_mut().for_each(flatten_logic),
        Expr::Map(m) => m.entries.iter_mut().for_each(|e| flatten_entry(e)),
        Expr::Struct(s) => s.entries.iter_mut().for_each(|e| flatten_entry(e)),
        Expr::Select(s) => flatten_logic(&mut s.operand),
        _ => {}
    }
    if let Expr::Call(c) = &e.expr {
        if (c.func_name == "_&&_" || c.func_name == "_||_") && c.args.len() == 2 && c.target.is_none() {
            let name = c.func_name.clone();
            let mut terms = vec![];
            collect(e, &name, &mut terms);
            let mut it = terms.into_iter().rev();
            let mut acc = it.next().unwrap();
            for t in it {
                acc = call(&name, None, vec![t, acc]);
            }
            *e = acc;
        }
    }
}
fn flatten_entry(e: &mut IdedEntryExpr) {
    match &mut e.expr {
        EntryExpr::StructField(f) => flatten_logic(&mut f.value),
        EntryExpr::MapEntry(m) => {
            flatten_logic(&mut m.key);
            flatten_logic(&mut m.value);
        }
    }
}
fn collect(e: &IdedExpr, name: &str, out: &mut Vec<IdedExpr>) {
    if let Expr::Call(c) = &e.expr {
        if c.func_name == name && c.args.len() == 2 && c.target.is_none() {
            collect(&c.args[0], name, out);
            collect(&c.args[1], name, out);
            return;
        }
    }
    out.push(e.clone());
}

// ------------------------------------------------------------------------------------------------
// minimal renderer from CEL's precedence table (DESIGN B.2), never from the parser

const L_COND: u8 = 0;
const L_UNARY: u8 = 6;
const L_MEMBER: u8 = 7;

fn level(e: &E) -> u8 {
    match e {
        E::Cond(..) => L_COND,
        E::Bin(op, ..) => op.level(),
        E::Not(_) | E::Neg(_) => L_UNARY,
        // a signed literal behaves like a unary expression for grouping purposes
        E::Lit(V::Int(i)) if *i < 0 => L_UNARY,
        E::Lit(V::Float(f)) if f.0.is_sign_negative() => L_UNARY,
        _ => L_MEMBER,
    }
}

pub struct Ws<'a> {
    pub seps: &'a [u8],
    pub pos: usize,
}
impl Ws<'_> {
    fn sp(&mut self) -> &'static str {
        let k = self.seps.get(self.pos).copied().unwrap_or(0);
        self.pos += 1;
        match k % 8 {
            0..=3 => " ",
            4 => "  ",
            5 => "\n",
            6 => "\t",
            _ => " // c\n ",
        }
    }
}

fn lit_min(v: &V) -> String {
    match v {
        V::Int(i) => i.to_string(),
        V::Float(f) => format!("{:?}", f.0),
        other => lit::lit(other).unwrap_or_else(|| "null".into()),
    }
}

pub fn render_min(e: &E, min: u8, ws: &mut Ws) -> String {
    let lvl = level(e);
    let s = match e {
        E::Lit(v) => lit_min(v),
        E::Var(n) => n.clone(),
        E::Raw(s) => s.clone(),
        E::Not(a) => {
            let inner = if matches!(**a, E::Not(_)) { render_min(a, L_UNARY, ws) } else { render_min(a, L_MEMBER, ws) };
            format!("!{inner}")
        }
        E::Neg(a) => {
            let inner = if matches!(**a, E::Neg(_)) { render_min(a, L_UNARY, ws) } else { render_min(a, L_MEMBER, ws) };
            // `-` directly before a numeric token folds into the literal: keep the operand apart
            if !matches!(**a, E::Neg(_)) && inner.starts_with(|c: char| c.is_ascii_digit() || c == '.') {
                format!("-({inner})")
            } else {
                format!("-{inner}")
            }
        }
        E::Bin(op, l, r) => {
            let (ll, rl) = (op.level(), op.level() + 1);
            let ls = render_min(l, ll, ws);
            let rs = render_min(r, rl, ws);
            format!("{ls}{}{}{}{rs}", ws.sp(), op.text(), ws.sp())
        }
        E::Cond(c, t, f) => {
            let cs = render_min(c, 1, ws);
            let ts = render_min(t, 1, ws);
            let fs = render_min(f, 0, ws);
            format!("{cs}{}?{}{ts}{}:{}{fs}", ws.sp(), ws.sp(), ws.sp(), ws.sp())
        }
        E::Index(a, i) => format!("{}[{}]", render_min(a, L_MEMBER, ws), render_min(i, 0, ws)),
        E::Select(a, f) => format!("{}.{}", render_min(a, L_MEMBER, ws), f),
        E::Has(a, f) => format!("has({}.{})", render_min(a, L_MEMBER, ws), f),
        E::List(xs) => format!("[{}]", xs.iter().map(|x| render_min(x, 0, ws)).collect::<Vec<_>>().join(", ")),
        E::Map(es) => format!("{{{}}}", es.iter().map(|(k, v)| format!("{}: {}", render_min(k, 0, ws), render_min(v, 0, ws))).collect::<Vec<_>>().join(", ")),
        E::Call(n, None, args) => format!("{}({})", n, args.iter().map(|x| render_min(x, 0, ws)).collect::<Vec<_>>().join(", ")),
        E::Call(n, Some(r), args) => format!("{}.{}({})", render_min(r, L_MEMBER, ws), n, args.iter().map(|x| render_min(x, 0, ws)).collect::<Vec<_>>().join(", ")),
        E::Macro(m, r, v, body) => format!("{}.{}({}, {})", render_min(r, L_MEMBER, ws), m.name(), v, body.iter().map(|x| render_min(x, 0, ws)).collect::<Vec<_>>().join(", ")),
        E::Struct(n, fs) => format!("{}{{{}}}", n, fs.iter().map(|(k, v)| format!("{}: {}", k, render_min(v, 0, ws))).collect::<Vec<_>>().join(", ")),
    };
    if lvl < min {
        format!("({s})")
    } else {
        s
    }
}

/// full parenthesisation: every operator application is wrapped
pub fn render_full(e: &E) -> String {
    match e {
        E::Lit(v) => match v {
            V::Int(i) if *i < 0 => format!("({i})"),
            V::Float(f) if f.0.is_sign_negative() => format!("({:?})", f.0),
            _ => lit_min(v),
        },
        E::Not(a) => format!("(!({}))", render_full(a)),
        E::Neg(a) => format!("(-({}))", render_full(a)),
        E::Bin(op, l, r) => format!("({} {} {})", render_full(l), op.text(), render_full(r)),
        E::Cond(c, t, f) => format!("({} ? {} : {})", render_full(c), render_full(t), render_full(f)),
        E::Index(a, i) => format!("({})[{}]", render_full(a), render_full(i)),
        E::Select(a, f) => format!("({}).{}", render_full(a), f),
        E::Has(a, f) => format!("has(({}).{})", render_full(a), f),
        E::List(xs) => format!("[{}]", xs.iter().map(render_full).collect::<Vec<_>>().join(", ")),
        E::Map(es) => format!("{{{}}}", es.iter().map(|(k, v)| format!("{}: {}", render_full(k), render_full(v))).collect::<Vec<_>>().join(", ")),
        E::Call(n, None, args) => format!("{}({})", n, args.iter().map(render_full).collect::<Vec<_>>().join(", ")),
        E::Call(n, Some(r), args) => format!("({}).{}({})", render_full(r), n, args.iter().map(render_full).collect::<Vec<_>>().join(", ")),
        E::Macro(m, r, v, body) => format!("({}).{}({}, {})", render_full(r), m.name(), v, body.iter().map(render_full).collect::<Vec<_>>().join(", ")),
        E::Struct(n, fs) => format!("{}{{{}}}", n, fs.iter().map(|(k, v)| format!("{}: {}", k, render_full(v))).collect::<Vec<_>>().join(", ")),
        E::Var(n) => n.clone(),
        E::Raw(s) => s.clone(),
    }
}

// ------------------------------------------------------------------------------------------------

#[derive(Clone, Debug, Serialize, Deserialize)]
pub struct Case {
    pub tree: E,
    /// 0 fully parenthesised, 1 minimal, 2 minimal with noisy whitespace / comments
    pub mode: u8,
    pub seps: Vec<u8>,
}

fn nontrivial(e: &E) -> (bool, Vec<&'static str>) {
    let mut cl = vec![];
    // two operators from different precedence levels adjacent in the tree
    let mixed = e.any(&|x| {
        let l = level(x);
        l < L_MEMBER && x.children().iter().any(|c| level(c) < L_MEMBER && level(c) != l)
    });
    if mixed {
        cl.push("mixed-precedence-levels");
    }
    let run = e.any(&|x| matches!(x, E::Not(a) if matches!(**a, E::Not(_))) || matches!(x, E::Neg(a) if matches!(**a, E::Neg(_))));
    if run {
        cl.push("prefix-run>=2");
    }
    let chain = e.any(&|x| matches!(x, E::Bin(op @ (Op::And | Op::Or), l, r) if matches!(&**l, E::Bin(o2, ..) if o2 == op) || matches!(&**r, E::Bin(o2, ..) if o2 == op)));
    if chain {
        cl.push("logic-chain>=3");
    }
    let mac = e.any(&|x| matches!(x, E::Macro(_, r, _, body) if level(r) < L_MEMBER || !matches!(**r, E::Var(_) | E::Lit(_)) || body.iter().any(|b| !matches!(b, E::Var(_) | E::Lit(_)))));
    if mac {
        cl.push("macro-with-compound-receiver-or-argument");
    }
    if e.any(&|x| matches!(x, E::Cond(..))) {
        cl.push("has:conditional");
    }
    (mixed || run || chain || mac, cl)
}

pub fn check(c: &Case) -> Outcome {
    let minimal = c.mode != 0;
    let Some(mut exp) = expected(&c.tree, minimal) else { return Outcome::Skip("tree-has-no-direct-ast") };
    let src = match c.mode {
        0 => render_full(&c.tree),
        1 => render_min(&c.tree, 0, &mut Ws { seps: &[], pos: 0 }),
        _ => render_min(&c.tree, 0, &mut Ws { seps: &c.seps, pos: 0 }),
    };
    let parsed = guard(|| cel_parser::Parser::new().parse(&src).map_err(|e| e.to_string()));
    let mut got = match parsed {
        Err(p) => return fail(format!("parse of `{src}` {}", p.short())),
        Ok(Err(e)) => return fail(format!("`{src}` (rendering of a valid tree) does not parse: {}", crate::sut::trunc(&e, 300))),
        Ok(Ok(t)) => t,
    };
    // the interpreter crate's entry point yields the very same tree (ids included) as the parser crate's
    match guard(|| cel_interpreter::Program::compile(&src).map(|p| format!("{p:?}")).map_err(|e| e.to_string())) {
        Err(p) => return fail(format!("Program::compile of `{src}` {}", p.short())),
        Ok(Err(e)) => return fail(format!("`{src}` parses with cel_parser::Parser but Program::compile rejects it: {}", crate::sut::trunc(&e, 300))),
        Ok(Ok(text)) => {
            // (the Debug rendering of a Program contains that of its expression, whatever else a Program may hold)
            let want = format!("{got:?}");
            if !text.contains(&want) {
                return fail(format!("`{src}`: Program::compile holds a different tree than cel_parser::Parser::parse returns for the same text:\n  parser  {}\n  program {}", crate::sut::trunc(&want, 1000), crate::sut::trunc(&text, 1000)));
            }
        }
    }
    zero_ids(&mut got);
    if minimal {
        flatten_logic(&mut got);
        flatten_logic(&mut exp);
    }
    if got != exp {
        return fail(format!("`{src}` parses to a different tree than the one it was rendered from:\n  expected {}\n  parsed   {}", crate::sut::trunc(&format!("{exp:?}"), 1200), crate::sut::trunc(&format!("{got:?}"), 1200)));
    }
    let (nt, mut cl) = nontrivial(&c.tree);
    cl.push(match c.mode {
        0 => "fully-parenthesised",
        1 => "minimally-parenthesised",
        _ => "noisy-whitespace",
    });
    pass_n(nt, cl)
}

// ------------------------------------------------------------------------------------------------
// exhaustive enumeration of all trees with exactly n operators over the complete operator set

#[derive(Clone, Copy)]
enum K {
    Not,
    Neg,
    Select,
    Has,
    Call1,
    MCall0,
    List1,
    MapVal,
    MapKey,
    Bin(Op),
    Index,
    MCall1,
    Call2,
    List2,
    Mac2(Mac),
    Cond,
    Map3,
}

fn kinds() -> Vec<(K, usize)> {
    let mut v = vec![(K::Not, 1), (K::Neg, 1), (K::Select, 1), (K::Has, 1), (K::Call1, 1), (K::MCall0, 1), (K::List1, 1), (K::MapVal, 1), (K::MapKey, 1)];
    for op in Op::ALL {
        v.push((K::Bin(op), 2));
    }
    v.extend([(K::Index, 2), (K::MCall1, 2), (K::Call2, 2), (K::List2, 2)]);
    for m in [Mac::All, Mac::Exists, Mac::ExistsOne, Mac::ExistsOneCamel, Mac::Map, Mac::Filter] {
        v.push((K::Mac2(m), 2));
    }
    v.extend([(K::Cond, 3), (K::Map3, 3)]);
    v
}

fn build(k: K, mut ch: Vec<E>) -> E {
    let mut next = || ch.remove(0);
    match k {
        K::Not => E::Not(b(next())),
        K::Neg => {
            let a = next();
            // Negate directly on a non-negative literal denotes the negative literal; use -(lit) semantics via a parenthesis in the renderer
            E::Neg(b(a))
        }
        K::Select => E::Select(b(next()), "f".into()),
        K::Has => E::Has(b(next()), "f".into()),
        K::Call1 => E::call("g", vec![next()]),
        K::MCall0 => E::mcall(next(), "m", vec![]),
        K::List1 => E::List(vec![next()]),
        K::MapVal => E::Map(vec![(E::Lit(V::Int(1)), next())]),
        K::MapKey => E::Map(vec![(next(), E::Lit(V::Int(1)))]),
        K::Bin(op) => {
            let l = next();
            E::bin(op, l, next())
        }
        K::Index => {
            let l = next();
            E::Index(b(l), b(next()))
        }
        K::MCall1 => {
            let l = next();
            E::mcall(l, "m", vec![next()])
        }
        K::Call2 => {
            let l = next();
            E::call("g", vec![l, next()])
        }
        K::List2 => {
            let l = next();
            E::List(vec![l, next()])
        }
        K::Mac2(m) => {
            let r = next();
            E::Macro(m, b(r), "v".into(), vec![next()])
        }
        K::Cond => {
            let c = next();
            let t = next();
            E::Cond(b(c), b(t), b(next()))
        }
        K::Map3 => {
            let r = next();
            let p = next();
            E::Macro(Mac::Map, b(r), "v".into(), vec![p, next()])
        }
    }
}

/// all trees with exactly n operators, n <= 2, materialised
fn level_lists() -> [Vec<E>; 3] {
    // leaves: an identifier, an int literal, a string literal that looks like a field name, and `true` (`a["k"]` is an index, not `a.k`)
    let l0 = vec![E::var("a"), E::Lit(V::Int(1)), E::Lit(V::s("k")), E::Lit(V::Bool(true))];
    let mut l1 = vec![];
    let mut l2 = vec![];
    let ks = kinds();
    for (k, ar) in &ks {
        match ar {
            1 => {
                for a in &l0 {
                    l1.push(build(*k, vec![a.clone()]));
                }
            }
            2 => {
                for a in &l0 {
                    for c in &l0 {
                        l1.push(build(*k, vec![a.clone(), c.clone()]));
                    }
                }
            }
            _ => {
                for a in &l0 {
                    for c in &l0 {
                        for d in &l0 {
                            l1.push(build(*k, vec![a.clone(), c.clone(), d.clone()]));
                        }
                    }
                }
            }
        }
    }
    for (k, ar) in &ks {
        match ar {
            1 => {
                for a in &l1 {
                    l2.push(build(*k, vec![a.clone()]));
                }
            }
            2 => {
                for a in &l1 {
                    for c in &l0 {
                        l2.push(build(*k, vec![a.clone(), c.clone()]));
                        l2.push(build(*k, vec![c.clone(), a.clone()]));
                    }
                }
            }
            _ => {
                for a in &l1 {
                    for c in &l0 {
                        for d in &l0 {
                            l2.push(build(*k, vec![a.clone(), c.clone(), d.clone()]));
                            l2.push(build(*k, vec![c.clone(), a.clone(), d.clone()]));
                            l2.push(build(*k, vec![c.clone(), d.clone(), a.clone()]));
                        }
                    }
                }
            }
        }
    }
    [l0, l1, l2]
}

/// segments of the three-operator space: (kind, child level per slot)
fn three_op_segments(ls: &[Vec<E>; 3]) -> Vec<(K, Vec<usize>, u64)> {
    let mut segs = vec![];
    for (k, ar) in kinds() {
        let dists: Vec<Vec<usize>> = match ar {
            1 => vec![vec![2]],
            2 => vec![vec![2, 0], vec![0, 2], vec![1, 1]],
            _ => vec![vec![2, 0, 0], vec![0, 2, 0], vec![0, 0, 2], vec![1, 1, 0], vec![1, 0, 1], vec![0, 1, 1]],
        };
        for d in dists {
            let n: u64 = d.iter().map(|l| ls[*l].len() as u64).product();
            segs.push((k, d, n));
        }
    }
    segs
}

/// trees the design excludes from the round trip because the *written form* denotes something else:
/// Negate directly on a numeric literal is handled by the renderer (parenthesis), nothing to exclude.
pub fn run(r: &mut Runner) {
    r.rule = "cases: (expression tree, rendering mode): exhaustively every tree with <= 2 (quick) / <= 3 (thorough) operators from the complete operator set (?:, ||, &&, seven relations, + - * / %, \
              prefix ! and -, select, has, index, global and member calls, list, map, the macros) over 2 leaf kinds, each fully and minimally parenthesised; every && / || chain of length 2-64, pure, \
              mixed with the other operator and with parenthesised sub-chains; every prefix run of length 1-6 of ! and - over identifier, parenthesised literal, select, index and call operands; \
              random trees of depth <= 7 in three renderings (full, minimal from CEL's precedence table, minimal with random whitespace/comments). Oracle: the AST built directly from the tree equals \
              cel_parser::Parser::parse(rendering) modulo node ids (logical chains compared by operand order under minimal rendering; macros by their documented skeleton around the receiver and argument trees). \
              Non-trivial: two operators of different precedence levels adjacent without parentheses, a prefix run >= 2, a chain >= 3, or a macro with compound receiver/argument; distinct by (tree, mode)."
        .into();
    r.assumptions = vec!["a single '-' directly before a numeric literal token denotes the negative literal (grammar rule `literal`); generated trees write Negate on a numeric literal as -(1)".into()];
    let ls = level_lists();
    for (n, l) in ls.iter().enumerate() {
        let l = l.clone();
        let cnt = l.len() as u64;
        r.sweep_fn(&format!("all-trees-{n}-operators"), cnt * 2, move |i| Case { tree: l[(i / 2) as usize].clone(), mode: (i % 2) as u8, seps: vec![] }, check);
    }
    if r.tier == Tier::Thorough {
        let segs = three_op_segments(&ls);
        let total: u64 = segs.iter().map(|s| s.2).sum();
        let ls2 = ls.clone();
        r.sweep_fn(
            "all-trees-3-operators",
            total * 2,
            move |i| {
                let mode = (i % 2) as u8;
                let mut j = i / 2;
                for (k, d, n) in &segs {
                    if j < *n {
                        let mut ch = vec![];
                        for l in d.iter().rev() {
                            let len = ls2[*l].len() as u64;
                            ch.push(ls2[*l][(j % len) as usize].clone());
                            j /= len;
                        }
                        ch.reverse();
                        return Case { tree: build(*k, ch), mode, seps: vec![] };
                    }
                    j -= n;
                }
                unreachable!()
            },
            check,
        );
    }
    // logical chains
    {
        let mut cases = vec![];
        let leaf = |i: usize| E::var(["a", "b", "c", "d", "e"][i % 5]);
        for len in 2..=64usize {
            for op in [Op::And, Op::Or] {
                let other = if op == Op::And { Op::Or } else { Op::And };
                // pure, left-nested
                let mut e = leaf(0);
                for i in 1..len {
                    e = E::bin(op, e, leaf(i));
                }
                // pure, right-nested (renders with parentheses)
                let mut er = leaf(len - 1);
                for i in (0..len - 1).rev() {
                    er = E::bin(op, leaf(i), er);
                }
                // mixed: every third term is a two-term chain of the other operator
                let mut em = leaf(0);
                for i in 1..len {
                    let t = if i % 3 == 0 { E::bin(other, leaf(i), leaf(i + 1)) } else { leaf(i) };
                    em = E::bin(op, em, t);
                }
                // with a parenthesised same-operator sub-chain in the middle
                let mut ep = leaf(0);
                for i in 1..len {
                    let t = if i == len / 2 { E::bin(op, leaf(i), E::bin(op, leaf(i + 1), leaf(i + 2))) } else { leaf(i) };
                    ep = E::bin(op, ep, t);
                }
                // with relations and arithmetic as terms
                let mut ea = E::bin(Op::Lt, leaf(0), E::bin(Op::Add, leaf(1), leaf(2)));
                for i in 1..len {
                    ea = E::bin(op, ea, if i % 2 == 0 { E::bin(Op::Eq, leaf(i), E::Lit(V::Int(i as i64))) } else { E::Not(b(leaf(i))) });
                }
                for t in [e, er, em, ep, ea] {
                    for mode in 0..2u8 {
                        cases.push(Case { tree: t.clone(), mode, seps: vec![] });
                    }
                }
            }
        }
        r.sweep("logic-chains-2-to-64", cases, check);
    }
    // prefix runs
    {
        let operands = vec![
            E::var("a"),
            E::Lit(V::Int(1)),
            E::Lit(V::Int(-1)),
            E::Lit(V::Float(crate::model::F(1.5))),
            E::Lit(V::Bool(true)),
            E::Select(b(E::var("a")), "f".into()),
            E::Index(b(E::var("a")), b(E::Lit(V::Int(0)))),
            E::call("g", vec![E::var("a")]),
            E::mcall(E::var("a"), "m", vec![]),
            E::bin(Op::Add, E::var("a"), E::Lit(V::Int(1))),
            E::List(vec![E::var("a")]),
        ];
        let mut cases = vec![];
        for o in &operands {
            for n in 1..=6usize {
                for neg in [false, true] {
                    let mut e = o.clone();
                    for _ in 0..n {
                        e = if neg { E::Neg(b(e)) } else { E::Not(b(e)) };
                    }
                    // and mixed runs: the other operator around a run
                    let mixed = if neg { E::Not(b(e.clone())) } else { E::Neg(b(e.clone())) };
                    // a run as the right operand of a binary minus / inside an index
                    let ctx1 = E::bin(Op::Sub, E::var("b"), e.clone());
                    let ctx2 = E::Index(b(E::var("b")), b(e.clone()));
                    for t in [e.clone(), mixed, ctx1, ctx2] {
                        for mode in 0..2u8 {
                            cases.push(Case { tree: t.clone(), mode, seps: vec![] });
                        }
                    }
                }
            }
        }
        r.sweep("prefix-runs-1-to-6", cases, check);
    }
    {
        // macro names in every call shape that is *not* the macro: plain calls that keep receiver and arguments
        let a = || E::var("a");
        let sel = || E::Select(b(E::var("a")), "f".into());
        let mut cases = vec![];
        for name in ["has", "all", "exists", "exists_one", "existsOne", "map", "filter"] {
            for recv in [None, Some(E::var("x")), Some(E::bin(Op::Add, E::var("x"), E::Lit(V::Int(1))))] {
                for args in [vec![], vec![a()], vec![sel()], vec![a(), E::var("c")], vec![a(), E::var("c"), E::var("d")], vec![a(), E::var("c"), E::var("d"), E::var("e")]] {
                    let t = E::Call(name.to_string(), recv.clone().map(b), args);
                    for mode in 0..2u8 {
                        cases.push(Case { tree: t.clone(), mode, seps: vec![] });
                    }
                }
            }
        }
        // the same name once as the macro and once as an ordinary call, in one expression, in both orders
        let plain: Vec<E> = cases.iter().filter(|c| c.mode == 0).map(|c| c.tree.clone()).collect();
        for name in ["all", "exists", "exists_one", "existsOne", "map", "filter"] {
            let mac = match name {
                "all" => Mac::All,
                "exists" => Mac::Exists,
                "exists_one" => Mac::ExistsOne,
                "existsOne" => Mac::ExistsOneCamel,
                "map" => Mac::Map,
                _ => Mac::Filter,
            };
            let m = E::Macro(mac, b(E::var("xs")), "v".into(), vec![E::bin(Op::Gt, E::var("v"), E::Lit(V::Int(1)))]);
            for p in plain.iter().filter(|p| matches!(p, E::Call(n, ..) if n == name)) {
                for t in [E::bin(Op::Or, p.clone(), m.clone()), E::bin(Op::Or, m.clone(), p.clone()), E::List(vec![m.clone(), p.clone(), m.clone()])] {
                    for mode in 0..2u8 {
                        cases.push(Case { tree: t.clone(), mode, seps: vec![] });
                    }
                }
            }
        }
        let hm = E::Has(b(E::var("m")), "f".into());
        for p in plain.iter().filter(|p| matches!(p, E::Call(n, ..) if n == "has")) {
            for t in [E::bin(Op::And, hm.clone(), p.clone()), E::bin(Op::And, p.clone(), hm.clone())] {
                for mode in 0..2u8 {
                    cases.push(Case { tree: t.clone(), mode, seps: vec![] });
                }
            }
        }
        r.sweep("macro-names-in-other-call-shapes", cases, check);
    }
    let mut pool = Pool::c02();
    pool.raw_literals = false;
    // macro names too: in any shape other than the macro's own they are ordinary calls
    pool.funcs = ["f", "g", "size", "contains", "startsWith", "h1", "has", "all", "exists", "exists_one", "existsOne", "map", "filter"].iter().map(|s| s.to_string()).collect();
    pool.vars = ["a", "b", "c", "x"].iter().map(|s| s.to_string()).collect();
    let n = r.tier.n(20_000, 1_000_000);
    r.random(
        "random-trees",
        600,
        n,
        |u: &mut Chooser| {
            let depth = 1 + u.below(7);
            let tree = gen_untyped(u, depth, &pool);
            let mode = u.below(3) as u8;
            let seps = (0..40).map(|_| u.below(8) as u8).collect();
            Case { tree, mode, seps }
        },
        check,
    );
    r.expect_class("mixed-precedence-levels", 5000);
    r.expect_class("prefix-run>=2", 500);
    r.expect_class("logic-chain>=3", 500);
    r.expect_class("macro-with-compound-receiver-or-argument", 500);
}
