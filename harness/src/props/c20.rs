//! C20 — function calls bind receiver and arguments predictably.

use crate::chooser::Chooser;
use crate::engine::{fail, guard, pass_n, Outcome, Runner};
use crate::gen::{gen_value, ValOpts};
use crate::model::{same, same_value, F, V};
use crate::sut::{self, from_cel, to_cel, R};
use cel_interpreter::extractors::{Arguments, Identifier, This};
use cel_interpreter::{Context, FunctionContext, ResolveResult, Value};
use serde::{Deserialize, Serialize};
use std::cell::RefCell;
use std::sync::Arc;

thread_local! {
    static LOG: RefCell<Vec<(String, Vec<V>)>> = const { RefCell::new(Vec::new()) };
}
fn log(name: &str, args: Vec<V>) -> ResolveResult {
    LOG.with(|l| l.borrow_mut().push((name.to_string(), args)));
    Ok(Value::String(Arc::new(format!("ran:{name}"))))
}
fn take_log() -> Vec<(String, Vec<V>)> {
    LOG.with(|l| std::mem::take(&mut *l.borrow_mut()))
}

/// parameter kinds of the binding model
#[derive(Clone, Copy, Debug, PartialEq, Serialize, Deserialize)]
pub enum P {
    Int,
    UInt,
    Float,
    Bool,
    Str,
    Bytes,
    List,
    Dur,
    Ts,
    Any,
    ThisInt,
    ThisStr,
    ThisAny,
    ThisOptInt,
    ThisOptStr,
    Args,
    Ident,
    /// leading &FunctionContext (consumes nothing)
    Ftx,
}

trait ToV {
    fn tov(&self) -> V;
}
impl ToV for i64 {
    fn tov(&self) -> V {
        V::Int(*self)
    }
}
impl ToV for u64 {
    fn tov(&self) -> V {
        V::UInt(*self)
    }
}
impl ToV for f64 {
    fn tov(&self) -> V {
        V::Float(F(*self))
    }
}
impl ToV for bool {
    fn tov(&self) -> V {
        V::Bool(*self)
    }
}
impl ToV for Arc<String> {
    fn tov(&self) -> V {
        V::Str(self.to_string())
    }
}
impl ToV for Arc<Vec<u8>> {
    fn tov(&self) -> V {
        V::Bytes(self.to_vec())
    }
}
impl ToV for Arc<Vec<Value>> {
    fn tov(&self) -> V {
        V::List(self.iter().map(from_cel).collect())
    }
}
impl ToV for chrono::Duration {
    fn tov(&self) -> V {
        from_cel(&Value::Duration(*self))
    }
}
impl ToV for chrono::DateTime<chrono::FixedOffset> {
    fn tov(&self) -> V {
        from_cel(&Value::Timestamp(*self))
    }
}
impl ToV for Value {
    fn tov(&self) -> V {
        from_cel(self)
    }
}
impl<T: ToV> ToV for This<T> {
    fn tov(&self) -> V {
        self.0.tov()
    }
}
impl<T: ToV> ToV for Option<T> {
    fn tov(&self) -> V {
        match self {
            None => V::Null,
            Some(x) => x.tov(),
        }
    }
}
impl ToV for Arguments {
    fn tov(&self) -> V {
        V::List(self.0.iter().map(from_cel).collect())
    }
}
impl ToV for Identifier {
    fn tov(&self) -> V {
        V::Str(format!("ident:{}", self.0))
    }
}

pub struct Sig {
    pub name: &'static str,
    pub params: Vec<P>,
}

macro_rules! host_fns {
    ($( $name:ident ( $( $p:ident : $t:ty => $k:ident ),* ) ; )*) => {
        $(
            #[allow(non_snake_case)]
            fn $name($($p: $t),*) -> ResolveResult {
                log(stringify!($name), vec![$($p.tov()),*])
            }
        )*
        pub fn sigs() -> Vec<Sig> {
            vec![$( Sig { name: stringify!($name), params: vec![$(P::$k),*] } ),*]
        }
        fn register(ctx: &mut Context) {
            $( ctx.add_function(stringify!($name), $name); )*
        }
    };
}

type Ts = chrono::DateTime<chrono::FixedOffset>;

host_fns! {
    k0();
    k_i(a: i64 => Int);
    k_u(a: u64 => UInt);
    k_f(a: f64 => Float);
    k_b(a: bool => Bool);
    k_s(a: Arc<String> => Str);
    k_y(a: Arc<Vec<u8>> => Bytes);
    k_l(a: Arc<Vec<Value>> => List);
    k_d(a: chrono::Duration => Dur);
    k_t(a: Ts => Ts);
    k_v(a: Value => Any);
    k_is(a: i64 => Int, b: Arc<String> => Str);
    k_si(a: Arc<String> => Str, b: i64 => Int);
    k_vv(a: Value => Any, b: Value => Any);
    k_ifb(a: i64 => Int, b: f64 => Float, c: bool => Bool);
    k_suy(a: Arc<String> => Str, b: u64 => UInt, c: Arc<Vec<u8>> => Bytes);
    k_vlv(a: Value => Any, b: Arc<Vec<Value>> => List, c: Value => Any);
    k_4(a: i64 => Int, b: u64 => UInt, c: f64 => Float, d: Arc<String> => Str);
    k_5(a: bool => Bool, b: Value => Any, c: i64 => Int, d: Arc<String> => Str, e: chrono::Duration => Dur);
    k_6(a: i64 => Int, b: i64 => Int, c: Arc<String> => Str, d: Value => Any, e: u64 => UInt, f: bool => Bool);
    k_7(a: Value => Any, b: i64 => Int, c: f64 => Float, d: Arc<String> => Str, e: Arc<Vec<u8>> => Bytes, f: Ts => Ts, g: bool => Bool);
    k_8(a: i64 => Int, b: u64 => UInt, c: f64 => Float, d: bool => Bool, e: Arc<String> => Str, f: Arc<Vec<u8>> => Bytes, g: Arc<Vec<Value>> => List, h: Value => Any);
    k_9(a: i64 => Int, b: i64 => Int, c: i64 => Int, d: Arc<String> => Str, e: Arc<String> => Str, f: u64 => UInt, g: Value => Any, h: bool => Bool, i: f64 => Float);
    t_i(a: This<i64> => ThisInt);
    t_s(a: This<Arc<String>> => ThisStr);
    t_v(a: This<Value> => ThisAny);
    t_oi(a: This<Option<i64>> => ThisOptInt);
    t_os(a: This<Option<Arc<String>>> => ThisOptStr);
    t_s_s(a: This<Arc<String>> => ThisStr, b: Arc<String> => Str);
    t_v_iv(a: This<Value> => ThisAny, b: i64 => Int, c: Value => Any);
    t_i_4(a: This<i64> => ThisInt, b: Arc<String> => Str, c: u64 => UInt, d: f64 => Float, e: bool => Bool);
    t_oi_s(a: This<Option<i64>> => ThisOptInt, b: Arc<String> => Str);
    k_i_ti(a: i64 => Int, b: This<i64> => ThisInt);
    k_s_ts_i(a: Arc<String> => Str, b: This<Arc<String>> => ThisStr, c: i64 => Int);
    k_vv_tv(a: Value => Any, b: Value => Any, c: This<Value> => ThisAny);
    f_i_toi(_ftx: &FunctionContext => Ftx, a: i64 => Int, b: This<Option<i64>> => ThisOptInt);
    va(a: Arguments => Args);
    id1(a: Identifier => Ident);
    id_v(a: Identifier => Ident, b: Value => Any);
    t_id(a: This<Value> => ThisAny, b: Identifier => Ident, c: i64 => Int);
    f0(_ftx: &FunctionContext => Ftx);
    f_i(_ftx: &FunctionContext => Ftx, a: i64 => Int);
    f_t_s(_ftx: &FunctionContext => Ftx, a: This<Arc<String>> => ThisStr, b: Arc<String> => Str);
    f_vv(_ftx: &FunctionContext => Ftx, a: Value => Any, b: Value => Any);
}

impl ToV for &FunctionContext<'_> {
    fn tov(&self) -> V {
        V::Str(format!("ftx:{}", self.name))
    }
}

/// an argument as written in the call: a context variable holding a value, or a bare identifier
#[derive(Clone, Debug, Serialize, Deserialize)]
pub enum Arg {
    Val(V),
    Ident(String),
}

#[derive(Clone, Debug, Serialize, Deserialize)]
pub struct HostCall {
    pub sig: usize,
    pub recv: Option<V>,
    pub args: Vec<Arg>,
    /// call it through the name of a built-in that it overrides
    pub override_builtin: Option<String>,
}

fn convert(k: P, v: &V) -> Result<V, ()> {
    let ok = match (k, v) {
        (P::Int | P::ThisInt, V::Int(_)) | (P::UInt, V::UInt(_)) | (P::Float, V::Float(_)) | (P::Bool, V::Bool(_)) | (P::Str | P::ThisStr, V::Str(_)) | (P::Bytes, V::Bytes(_)) | (P::List, V::List(_)) | (P::Dur, V::Dur(..)) | (P::Ts, V::Ts(..)) => true,
        (P::Any | P::ThisAny, _) => true,
        (P::ThisOptInt, V::Int(_) | V::Null) | (P::ThisOptStr, V::Str(_) | V::Null) => true,
        _ => false,
    };
    if ok {
        Ok(v.clone())
    } else {
        Err(())
    }
}

/// binding model: Ok(delivered arguments) or Err(()) for "execution error, function not invoked"
pub fn bind(params: &[P], fname: &str, recv: &Option<V>, args: &[Arg]) -> Result<Vec<V>, ()> {
    let mut idx = 0;
    let mut out = vec![];
    let value_of = |a: &Arg| -> Result<V, ()> {
        match a {
            Arg::Val(v) => Ok(v.clone()),
            // a bare identifier used where a value is needed is looked up as a variable; the generator only uses unbound names
            Arg::Ident(_) => Err(()),
        }
    };
    for p in params {
        match p {
            P::Ftx => out.push(V::Str(format!("ftx:{fname}"))),
            P::ThisInt | P::ThisStr | P::ThisAny | P::ThisOptInt | P::ThisOptStr => {
                let v = match recv {
                    Some(r) => r.clone(),
                    None => {
                        let a = args.get(idx).ok_or(())?;
                        idx += 1;
                        value_of(a)?
                    }
                };
                out.push(convert(*p, &v)?);
            }
            P::Args => {
                let mut all = vec![];
                for a in args {
                    all.push(value_of(a)?);
                }
                out.push(V::List(all));
            }
            P::Ident => {
                let a = args.get(idx).ok_or(())?;
                idx += 1;
                match a {
                    Arg::Ident(n) => out.push(V::Str(format!("ident:{n}"))),
                    Arg::Val(_) => {
                        // the argument is written as a variable name (a0, a1, …): that *is* an identifier
                        out.push(V::Str(format!("ident:a{}", idx - 1)));
                    }
                }
            }
            k => {
                let a = args.get(idx).ok_or(())?;
                idx += 1;
                out.push(convert(*k, &value_of(a)?)?);
            }
        }
    }
    Ok(out)
}

pub fn check_host(c: &HostCall) -> Outcome {
    let all = sigs();
    let sig = &all[c.sig % all.len()];
    let call_name = c.override_builtin.clone().unwrap_or_else(|| sig.name.to_string());
    let mut vars: Vec<(String, V)> = vec![];
    let mut rendered: Vec<String> = vec![];
    for (i, a) in c.args.iter().enumerate() {
        match a {
            Arg::Val(v) => {
                vars.push((format!("a{i}"), v.clone()));
                rendered.push(format!("a{i}"));
            }
            Arg::Ident(n) => rendered.push(n.clone()),
        }
    }
    let src = match &c.recv {
        Some(r) => {
            vars.push(("r".to_string(), r.clone()));
            format!("r.{}({})", call_name, rendered.join(", "))
        }
        None => format!("{}({})", call_name, rendered.join(", ")),
    };
    if vars.iter().any(|(_, v)| to_cel(v).is_none()) {
        return Outcome::Skip("not-representable-in-chrono");
    }
    // a macro name in a call shape that is not the macro's (receiver-style `has`, global `all`, a receiver macro with the
    // wrong number of arguments) is an ordinary call; in the macro's own shape the macro wins and no function is involved
    let macro_shape = match call_name.as_str() {
        "has" => c.recv.is_none() && c.args.len() == 1,
        "all" | "exists" | "exists_one" | "existsOne" | "filter" => c.recv.is_some() && c.args.len() == 2,
        "map" => c.recv.is_some() && (c.args.len() == 2 || c.args.len() == 3),
        _ => false,
    };
    if macro_shape {
        return Outcome::Skip("macro-shape");
    }
    let prog = match sut::compile(&src) {
        Ok(Ok(p)) => p,
        Ok(Err(e)) => {
            if c.override_builtin.is_some() {
                return fail(format!("`{src}` is an ordinary call of the host function registered as {call_name:?}, yet it does not compile: {}", sut::trunc(&e, 160)));
            }
            return Outcome::Skip("does-not-compile");
        }
        Err(p) => return fail(format!("compile `{src}` {}", p.short())),
    };
    let mut ctx = sut::ctx_with(&vars);
    register(&mut ctx);
    if let Some(b) = &c.override_builtin {
        // re-register the host function under the built-in's name
        register_as(&mut ctx, sig.name, b);
    }
    // the previous case's call runs on this context first (sut::warm): whatever it leaves behind must not matter
    sut::warm(&ctx);
    take_log();
    let got = sut::exec(&prog, &ctx);
    let logged = take_log();
    sut::remember(prog);
    let model = bind(&sig.params, &call_name, &c.recv, &c.args);
    let surplus = {
        let consumed = sig.params.iter().filter(|p| !matches!(p, P::Ftx | P::Args)).count() - if c.recv.is_some() { sig.params.iter().filter(|p| matches!(p, P::ThisInt | P::ThisStr | P::ThisAny | P::ThisOptInt | P::ThisOptStr)).count() } else { 0 };
        c.args.len() > consumed && !sig.params.contains(&P::Args)
    };
    let ctxs = format!("`{src}` ({}({:?})) with {}", sig.name, sig.params, sut::trunc(&format!("{vars:?}"), 400));
    if let R::Panic(p) = &got {
        return fail(format!("{ctxs}: {}", p.short()));
    }
    match (&model, &got) {
        (Ok(delivered), R::Val(v)) => {
            // maps are compared as entry sets, NaN as one class
            let ok = logged.len() == 1 && logged[0].0 == sig.name && logged[0].1.len() == delivered.len() && logged[0].1.iter().zip(delivered).all(|(a, b)| same(a, b));
            if !ok {
                return fail(format!("{ctxs}: the function must run exactly once with {}{delivered:?}, observed invocations {logged:?}", sig.name));
            }
            if !matches!(v, V::Str(s) if *s == format!("ran:{}", sig.name)) {
                return fail(format!("{ctxs}: result {v:?} is not the host function's result"));
            }
        }
        (Ok(delivered), R::Err(..)) => {
            // rejecting surplus arguments would be acceptable; anything else is not
            if !surplus {
                return fail(format!("{ctxs}: arguments match the declared parameters ({delivered:?}) but the call fails: {}", got.show()));
            }
            if !logged.is_empty() {
                return fail(format!("{ctxs}: the call fails although the function ran: {logged:?}"));
            }
        }
        (Err(()), R::Val(v)) => {
            return fail(format!("{ctxs}: missing or wrongly typed arguments must yield an execution error, observed Ok({v:?}) with invocations {logged:?}"));
        }
        (Err(()), R::Err(..)) => {
            if !logged.is_empty() {
                return fail(format!("{ctxs}: the call is an error, yet the function was invoked with different data: {logged:?}"));
            }
        }
        (_, R::Panic(_)) => unreachable!(),
    }
    let arity = sig.params.iter().filter(|p| !matches!(p, P::Ftx)).count();
    let mut cl = vec![if model.is_ok() { "host-call-delivered" } else { "host-call-rejected" }];
    if c.recv.is_some() {
        cl.push("receiver-style");
    }
    if c.override_builtin.is_some() {
        cl.push("overrides-built-in");
    }
    if arity >= 3 {
        cl.push("arity>=3");
    }
    if surplus {
        cl.push("surplus-arguments");
    }
    pass_n(arity >= 3 || model.is_err() || c.recv.is_some(), cl)
}

fn register_as(ctx: &mut Context, sig: &str, as_name: &str) {
    // a small set of signatures is enough to exercise overriding
    match sig {
        "k_v" => ctx.add_function(as_name, k_v),
        "t_v" => ctx.add_function(as_name, t_v),
        "t_s_s" => ctx.add_function(as_name, t_s_s),
        "va" => ctx.add_function(as_name, va),
        "k0" => ctx.add_function(as_name, k0),
        "k_vv" => ctx.add_function(as_name, k_vv),
        _ => ctx.add_function(as_name, va),
    }
}

// ------------------------------------------------------------------------------------------------
// built-ins: x.f(args) and f(x, args) agree

#[derive(Clone, Debug, Serialize, Deserialize)]
pub struct Builtin {
    pub func: String,
    pub recv: V,
    pub args: Vec<V>,
}

pub const THIS_BUILTINS: [(&str, usize); 19] = [
    ("size", 0),
    ("contains", 1),
    ("startsWith", 1),
    ("endsWith", 1),
    ("matches", 1),
    ("string", 0),
    ("double", 0),
    ("int", 0),
    ("uint", 0),
    ("getFullYear", 0),
    ("getMonth", 0),
    ("getDayOfYear", 0),
    ("getDayOfMonth", 0),
    ("getDate", 0),
    ("getDayOfWeek", 0),
    ("getHours", 0),
    ("getMinutes", 0),
    ("getSeconds", 0),
    ("getMilliseconds", 0),
];

pub fn receivers() -> Vec<V> {
    vec![
        V::Null,
        V::Bool(true),
        V::Int(0),
        V::Int(-7),
        V::Int(i64::MAX),
        V::Int(i64::MIN),
        V::UInt(0),
        V::UInt(u64::MAX),
        V::f(0.0),
        V::f(-1.5),
        V::f(f64::NAN),
        V::f(f64::INFINITY),
        V::f(9223372036854775808.0),
        V::f(1e300),
        V::s(""),
        V::s("abc"),
        V::s("12"),
        V::s("-3"),
        V::s("1.5"),
        V::s("é𝄞"),
        V::s("a.c"),
        V::Bytes(vec![]),
        V::Bytes(b"abc".to_vec()),
        V::Bytes(vec![0xff]),
        V::List(vec![]),
        V::List(vec![V::Int(1), V::s("a"), V::Null]),
        V::List(vec![V::f(f64::NAN)]),
        V::Map(vec![]),
        V::Map(vec![(V::s("a"), V::Int(1)), (V::Int(1), V::s("x"))]),
        V::Map(vec![(V::UInt(1), V::Bool(true))]),
        V::dur_ns(0),
        V::dur_ns(-1_500_000_000),
        V::dur_ns(i64::MAX as i128),
        V::Ts(0, 0, 0),
        V::Ts(1685232000, 123_456_789, 19800),
        V::Ts(-62135596800, 0, 0),
        V::Ts(253402300799, 999_999_999, -43200),
        V::Func("size".into(), None),
        V::Func("f".into(), Some(Box::new(V::Int(1)))),
    ]
}

fn arg_pool() -> Vec<V> {
    vec![V::s(""), V::s("a"), V::s("abc"), V::s("^a"), V::s("("), V::Int(1), V::UInt(1), V::Null, V::Bytes(vec![]), V::Bytes(b"b".to_vec()), V::List(vec![]), V::f(f64::NAN), V::Bool(true), V::s("é")]
}

fn agree(a: &R, b: &R) -> bool {
    match (a, b) {
        (R::Val(x), R::Val(y)) => same_value(x, y) || same(x, y),
        (R::Err(c1, _), R::Err(c2, _)) => c1 == c2,
        _ => false,
    }
}

pub fn check_builtin(c: &Builtin) -> Outcome {
    let mut vars = vec![("r".to_string(), c.recv.clone())];
    let mut names = vec![];
    for (i, a) in c.args.iter().enumerate() {
        vars.push((format!("a{i}"), a.clone()));
        names.push(format!("a{i}"));
    }
    if vars.iter().any(|(_, v)| to_cel(v).is_none()) {
        return Outcome::Skip("not-representable-in-chrono");
    }
    let m = format!("r.{}({})", c.func, names.join(", "));
    let f = format!("{}({})", c.func, std::iter::once("r".to_string()).chain(names.iter().cloned()).collect::<Vec<_>>().join(", "));
    let run = |src: &str| match sut::run_src(src, &vars) {
        sut::Ran::Done(r) => Ok(r),
        o => Err(format!("`{src}`: {}", o.show())),
    };
    let (rm, rf) = match (run(&m), run(&f)) {
        (Ok(a), Ok(b)) => (a, b),
        (Err(e), _) | (_, Err(e)) => return fail(e),
    };
    if rm.is_panic() || rf.is_panic() {
        return fail(format!("`{m}` / `{f}` with {vars:?}: {} / {}", rm.show(), rf.show()));
    }
    if !agree(&rm, &rf) {
        return fail(format!("`{m}` gives {} but `{f}` gives {} (r = {:?}, args = {:?})", rm.show(), rf.show(), c.recv, c.args));
    }
    // the receiver and arguments written out as literals: still the same result in both styles, and the same as with variables
    if let (Some(rl), Some(al)) = (crate::model::lit::lit(&c.recv), c.args.iter().map(crate::model::lit::lit).collect::<Option<Vec<String>>>()) {
        let lm = format!("{rl}.{}({})", c.func, al.join(", "));
        let lf = format!("{}({})", c.func, std::iter::once(rl.clone()).chain(al.iter().cloned()).collect::<Vec<_>>().join(", "));
        let (ym, yf) = match (run(&lm), run(&lf)) {
            (Ok(a), Ok(b)) => (a, b),
            (Err(e), _) | (_, Err(e)) => return fail(e),
        };
        if ym.is_panic() || yf.is_panic() || !agree(&ym, &yf) || !agree(&ym, &rm) {
            return fail(format!("with literal operands `{lm}` gives {} and `{lf}` gives {}, with variables `{m}` gives {} (r = {:?}, args = {:?})", ym.show(), yf.show(), rm.show(), c.recv, c.args));
        }
    }
    // the same two calls inside a macro body, with the iteration variable as receiver / as argument: still the same result
    {
        let (mm, mf) = if c.args.len() == 1 {
            (format!("[a0].map(v, r.{}(v))", c.func), format!("[a0].map(v, {}(r, v))", c.func))
        } else {
            let rest = names.join(", ");
            let sep = if rest.is_empty() { "" } else { ", " };
            (format!("[r].map(v, v.{}({rest}))", c.func), format!("[r].map(v, {}(v{sep}{rest}))", c.func))
        };
        let (xm, xf) = match (run(&mm), run(&mf)) {
            (Ok(a), Ok(b)) => (a, b),
            (Err(e), _) | (_, Err(e)) => return fail(e),
        };
        if xm.is_panic() || xf.is_panic() {
            return fail(format!("`{mm}` / `{mf}` with {vars:?}: {} / {}", xm.show(), xf.show()));
        }
        let lifted = |r: &R| -> R {
            match r {
                R::Val(v) => R::Val(V::List(vec![v.clone()])),
                other => other.clone(),
            }
        };
        if !agree(&xm, &xf) || !agree(&xm, &lifted(&rm)) {
            return fail(format!("inside a macro body `{mm}` gives {} and `{mf}` gives {}, while outside `{m}` gives {} (r = {:?}, args = {:?})", xm.show(), xf.show(), rm.show(), c.recv, c.args));
        }
    }
    let nonstring = !matches!(c.recv, V::Str(_));
    pass_n(nonstring || !c.args.is_empty(), vec![if matches!(rm, R::Val(_)) { "built-in-both-styles-value" } else { "built-in-both-styles-error" }])
}

fn gen_arg_for(u: &mut Chooser, p: P) -> V {
    // mostly the matching kind, sometimes a mismatching one
    let matching = match p {
        P::Int | P::ThisInt | P::ThisOptInt => V::Int(crate::gen::gen_i64(u)),
        P::UInt => V::UInt(crate::gen::gen_u64(u)),
        P::Float => V::Float(F(crate::gen::gen_f64(u))),
        P::Bool => V::Bool(u.flip()),
        P::Str | P::ThisStr | P::ThisOptStr => V::Str(crate::gen::gen_string(u)),
        P::Bytes => V::Bytes(crate::gen::gen_bytes(u)),
        P::List => V::List(vec![V::Int(1), V::Null]),
        P::Dur => V::dur_ns(u.log_i64() as i128),
        P::Ts => V::Ts(u.range(-62135596800, 253402300799), 0, u.range(-720, 840) as i32 * 60),
        _ => gen_value(u, 2, ValOpts::ALL),
    };
    match u.below(6) {
        0 => gen_value(u, 1, ValOpts::ALL),
        1 if matches!(p, P::ThisOptInt | P::ThisOptStr) => V::Null,
        _ => matching,
    }
}

fn gen_host_call(u: &mut Chooser) -> HostCall {
    let all = sigs();
    let si = u.below(all.len());
    let sig = &all[si];
    let this_params = sig.params.iter().filter(|p| matches!(p, P::ThisInt | P::ThisStr | P::ThisAny | P::ThisOptInt | P::ThisOptStr)).count();
    let with_recv = if this_params > 0 { u.chance(2, 3) } else { u.chance(1, 6) };
    let consuming: Vec<P> = sig.params.iter().copied().filter(|p| !matches!(p, P::Ftx | P::Args)).collect();
    let recv = if with_recv {
        let tp = sig.params.iter().copied().find(|p| matches!(p, P::ThisInt | P::ThisStr | P::ThisAny | P::ThisOptInt | P::ThisOptStr)).unwrap_or(P::Any);
        Some(gen_arg_for(u, tp))
    } else {
        None
    };
    // parameters that take arguments from the list
    let from_list: Vec<P> = consuming.iter().copied().filter(|p| !(with_recv && matches!(p, P::ThisInt | P::ThisStr | P::ThisAny | P::ThisOptInt | P::ThisOptStr))).collect();
    let arity = from_list.len();
    // 0 … arity + 2 arguments, biased to the exact count
    let n = match u.below(4) {
        0 => u.below(arity + 3),
        _ => arity,
    };
    let mut args = vec![];
    for i in 0..n {
        let p = from_list.get(i).copied().unwrap_or(P::Any);
        if p == P::Ident {
            args.push(if u.chance(3, 4) { Arg::Ident(u.pick(&["foo", "x", "unbound_name"]).to_string()) } else { Arg::Val(V::Int(1)) });
        } else if u.chance(1, 30) {
            args.push(Arg::Ident("unbound_name".to_string()));
        } else {
            args.push(Arg::Val(gen_arg_for(u, p)));
        }
    }
    if sig.params.contains(&P::Args) {
        args = (0..u.below(5)).map(|_| if u.chance(1, 8) { Arg::Ident("unbound_name".to_string()) } else { Arg::Val(gen_value(u, 1, ValOpts::ALL)) }).collect();
    }
    let override_builtin = if matches!(sig.name, "k_v" | "t_v" | "t_s_s" | "va" | "k0" | "k_vv") && u.chance(1, 3) { Some(u.pick(&["size", "contains", "startsWith", "endsWith", "matches", "string", "max", "int", "duration", "getHours", "has", "all", "map", "filter"]).to_string()) } else { None };
    HostCall { sig: si, recv, args, override_builtin }
}

pub fn run(r: &mut Runner) {
    r.rule = "cases: (a) every receiver-style built-in (size, contains, startsWith, endsWith, matches, string, double, int, uint and the ten timestamp accessors) x ~40 receivers covering every value kind x argument pools, written as x.f(a…) and f(x, a…): the two styles must give equal results \
              (values by equality with NaN as a class, errors by class); (b) 40 logging host functions of arity 0-9 covering every parameter type at several positions and every extractor (This<T>, This<Option<T>>, Arguments, Identifier, Value, &FunctionContext), called with 0 … arity+2 arguments of matching and \
              mismatching kinds in both styles, optionally registered under a built-in's name. Oracle (binding model): with a receiver and a This parameter the receiver is `this`, otherwise This takes the first argument; positional parameters take the following arguments in order, converted to their declared types; \
              a missing or wrongly typed argument gives an execution error and no invocation; otherwise the function runs exactly once with exactly the model's arguments; never a panic; an overriding registration is the one that is called. Non-trivial: arity >= 3, a missing / mismatched argument, a receiver-style call; distinct by (signature, call shape, arguments)."
        .into();
    r.assumptions = vec!["calls with surplus arguments may either be rejected or run with the leading arguments (the statement does not say); unbound identifiers are used where an Identifier parameter is expected".into()];
    let mut cases = vec![];
    for (f, nargs) in THIS_BUILTINS {
        for recv in receivers() {
            if nargs == 0 {
                cases.push(Builtin { func: f.to_string(), recv: recv.clone(), args: vec![] });
            } else {
                for a in arg_pool() {
                    cases.push(Builtin { func: f.to_string(), recv: recv.clone(), args: vec![a] });
                }
            }
        }
    }
    r.sweep("built-ins-x-receivers-x-arguments", cases, check_builtin);
    // every signature with exactly matching arguments, both styles, plus each missing-argument count
    {
        let all = sigs();
        let mut fixed = vec![];
        for (si, sig) in all.iter().enumerate() {
            let sample = |p: P| -> Arg {
                Arg::Val(match p {
                    P::Int | P::ThisInt | P::ThisOptInt => V::Int(7),
                    P::UInt => V::UInt(8),
                    P::Float => V::f(1.5),
                    P::Bool => V::Bool(true),
                    P::Str | P::ThisStr | P::ThisOptStr => V::s("s"),
                    P::Bytes => V::Bytes(vec![1]),
                    P::List => V::List(vec![V::Int(1)]),
                    P::Dur => V::dur_ns(5),
                    P::Ts => V::Ts(1, 0, 0),
                    _ => V::s("any"),
                })
            };
            let consuming: Vec<P> = sig.params.iter().copied().filter(|p| !matches!(p, P::Ftx | P::Args)).collect();
            let is_this = |p: &P| matches!(p, P::ThisInt | P::ThisStr | P::ThisAny | P::ThisOptInt | P::ThisOptStr);
            for n in 0..=consuming.len() + 2 {
                let args: Vec<Arg> = (0..n).map(|i| consuming.get(i).copied().map(|p| if p == P::Ident { Arg::Ident("foo".into()) } else { sample(p) }).unwrap_or(Arg::Val(V::Int(99)))).collect();
                fixed.push(HostCall { sig: si, recv: None, args, override_builtin: None });
            }
            if let Some(tpos) = consuming.iter().position(is_this) {
                let rest: Vec<P> = consuming.iter().enumerate().filter(|(i, _)| *i != tpos).map(|(_, p)| *p).collect();
                for n in 0..=rest.len() + 1 {
                    let args: Vec<Arg> = (0..n).map(|i| rest.get(i).copied().map(|p| if p == P::Ident { Arg::Ident("foo".into()) } else { sample(p) }).unwrap_or(Arg::Val(V::Int(99)))).collect();
                    let Arg::Val(rv) = sample(consuming[tpos]) else { unreachable!() };
                    fixed.push(HostCall { sig: si, recv: Some(rv), args: args.clone(), override_builtin: None });
                    // mismatching receiver
                    fixed.push(HostCall { sig: si, recv: Some(V::List(vec![])), args, override_builtin: None });
                }
            }
            // each position mismatched once
            for bad in 0..consuming.len() {
                let args: Vec<Arg> = consuming.iter().enumerate().map(|(i, p)| if i == bad { Arg::Val(V::Map(vec![])) } else if *p == P::Ident { Arg::Ident("foo".into()) } else { sample(*p) }).collect();
                fixed.push(HostCall { sig: si, recv: None, args, override_builtin: None });
            }
        }
        {
            let si = all.iter().position(|s| s.name == "va").unwrap();
            for l in [V::List(vec![V::Int(1), V::Int(2), V::Int(3)]), V::List(vec![]), V::List(vec![V::List(vec![V::Int(1)])]), V::Map(vec![(V::s("a"), V::Int(1))])] {
                fixed.push(HostCall { sig: si, recv: None, args: vec![Arg::Val(l.clone())], override_builtin: None });
                fixed.push(HostCall { sig: si, recv: Some(l.clone()), args: vec![Arg::Val(l)], override_builtin: None });
            }
        }
        for b in ["size", "contains", "startsWith", "endsWith", "matches", "string", "max", "getHours", "has", "all", "exists", "map", "filter", "exists_one"] {
            for (name, args, recv) in [("k_v", vec![Arg::Val(V::s("abc"))], None), ("t_v", vec![], Some(V::s("abc"))), ("t_s_s", vec![Arg::Val(V::s("a"))], Some(V::s("abc"))), ("va", vec![Arg::Val(V::Int(1)), Arg::Val(V::Int(2))], None), ("va", vec![Arg::Val(V::s("x")), Arg::Val(V::s("y")), Arg::Val(V::s("z"))], None), ("va", vec![Arg::Val(V::List(vec![V::Int(1), V::Int(2), V::Int(3)]))], None), ("va", vec![Arg::Val(V::List(vec![]))], None), ("k_vv", vec![Arg::Val(V::s("foobar")), Arg::Val(V::s("foo"))], None), ("k0", vec![], None)] {
                let si = all.iter().position(|s| s.name == name).unwrap();
                fixed.push(HostCall { sig: si, recv, args, override_builtin: Some(b.to_string()) });
            }
        }
        r.sweep("every-signature-exact-missing-and-mismatched", fixed, check_host);
    }
    let n = r.tier.n(20_000, 800_000);
    r.random("random-host-calls", 80, n, gen_host_call, check_host);
    r.random(
        "random-built-in-calls",
        60,
        n / 2,
        |u: &mut Chooser| {
            let (f, nargs) = *u.pick(&THIS_BUILTINS);
            let recv = if u.flip() { u.pick(&receivers()).clone() } else { gen_value(u, 2, ValOpts::ALL) };
            // also with surplus / missing arguments: both styles must still agree
            let k = match u.below(5) {
                0 => u.below(3),
                _ => nargs,
            };
            let args = (0..k).map(|_| if u.flip() { u.pick(&arg_pool()).clone() } else { gen_value(u, 1, ValOpts::ALL) }).collect();
            Builtin { func: f.to_string(), recv, args }
        },
        check_builtin,
    );
    let _ = guard(|| ());
    r.expect_class("host-call-rejected", 2000);
    r.expect_class("host-call-delivered", 2000);
    r.expect_class("overrides-built-in", 200);
    r.expect_class("arity>=3", 2000);
}
