//! C06 — logical operators and the conditional evaluate only what they need.

use crate::chooser::Chooser;
use crate::engine::{fail, pass_n, Outcome, Runner};
use crate::model::eval::{eval, St, Stop};
use crate::model::expr::{b, Mac, Op, E};
use crate::model::V;
use crate::props::c03::agree;
use crate::sut::{self, Ran};
use serde::{Deserialize, Serialize};

#[derive(Clone, Debug, Serialize, Deserialize)]
pub struct Case {
    pub expr: E,
    /// 0: bare; 1..: embedded as the body of a macro over a short list
    pub wrap: u8,
}

/// leaf alphabet; `t(0, ..)` ids are renumbered in source order afterwards
fn leaf(k: usize) -> E {
    match k {
        0 => E::Lit(V::Bool(true)),
        1 => E::Lit(V::Bool(false)),
        2 => E::bin(Op::Gt, E::bin(Op::Div, E::Lit(V::Int(1)), E::Lit(V::Int(0))), E::Lit(V::Int(0))),
        3 => E::call("t", vec![E::Lit(V::Int(0)), E::Lit(V::Bool(true))]),
        4 => E::call("t", vec![E::Lit(V::Int(0)), E::Lit(V::Bool(false))]),
        5 => E::call("fail", vec![]),
        6 => E::bin(Op::Gt, E::bin(Op::Add, E::Lit(V::Int(i64::MAX)), E::Lit(V::Int(1))), E::Lit(V::Int(0))),
        7 => E::Select(b(E::Map(vec![])), "k".into()),
        8 => E::Var("undeclared_u".into()),
        // comparisons of one and the same plain operand (chains of these look like membership tests)
        9 => E::bin(Op::Eq, E::Lit(V::Int(1)), E::Lit(V::Int(1))),
        10 => E::bin(Op::Eq, E::Lit(V::Int(1)), E::bin(Op::Div, E::Lit(V::Int(1)), E::Lit(V::Int(0)))),
        11 => E::bin(Op::Eq, E::Lit(V::Int(1)), E::Lit(V::Int(2))),
        12 => E::bin(Op::Ne, E::Lit(V::Int(1)), E::bin(Op::Rem, E::Lit(V::Int(1)), E::Lit(V::Int(0)))),
        13 => E::bin(Op::Ne, E::Lit(V::Int(1)), E::Lit(V::Int(2))),
        // a call of a function no context has: an error only if the operand is evaluated
        _ => E::call("no_such_function", vec![]),
    }
}
const FULL: usize = 15;
const REDUCED: usize = 6;

fn renumber(e: &mut E, next: &mut i64) {
    match e {
        E::Call(n, _, args) if n == "t" => {
            *next += 1;
            args[0] = E::Lit(V::Int(*next));
            renumber(&mut args[1], next);
        }
        E::Bin(_, l, r) => {
            renumber(l, next);
            renumber(r, next);
        }
        E::Cond(c, t, f) => {
            renumber(c, next);
            renumber(t, next);
            renumber(f, next);
        }
        E::Not(a) => renumber(a, next),
        _ => {}
    }
}

/// all trees of depth <= 1 over `n` leaves: index space n (leaves) + 2*n^2 (&&, ||) + n^3 (?:)
fn depth1_count(n: usize) -> usize {
    n + 2 * n * n + n * n * n
}
fn depth1(n: usize, mut i: usize) -> E {
    if i < n {
        return leaf(i);
    }
    i -= n;
    if i < 2 * n * n {
        let op = if i < n * n { Op::And } else { Op::Or };
        let j = i % (n * n);
        return E::bin(op, leaf(j / n), leaf(j % n));
    }
    i -= 2 * n * n;
    E::Cond(b(leaf(i / (n * n))), b(leaf((i / n) % n)), b(leaf(i % n)))
}
/// binary-only depth <= 1 trees (children of the depth-2 ternary sweep)
fn bin1_count(n: usize) -> usize {
    n + 2 * n * n
}

fn wrap(e: E, w: u8) -> E {
    match w {
        0 => e,
        1 => E::Macro(Mac::All, b(E::List(vec![E::Lit(V::Int(1)), E::Lit(V::Int(2))])), "x".into(), vec![e]),
        2 => E::Macro(Mac::Exists, b(E::List(vec![E::Lit(V::Int(1)), E::Lit(V::Int(2))])), "x".into(), vec![e]),
        3 => E::Macro(Mac::Filter, b(E::List(vec![E::Lit(V::Int(1)), E::Lit(V::Int(2))])), "x".into(), vec![e]),
        4 => E::Macro(Mac::Map, b(E::List(vec![E::Lit(V::Int(1)), E::Lit(V::Int(2))])), "x".into(), vec![e]),
        5 => E::Macro(Mac::ExistsOne, b(E::List(vec![E::Lit(V::Int(1)), E::Lit(V::Int(2))])), "x".into(), vec![e]),
        // the three-argument map: the tree as the guard of a logging / raising transform, and as the transform under a
        // guard that is false for the first element (the macro's own "guard ? append : keep" skips the transform)
        6 => E::Macro(Mac::Map, b(E::List(vec![E::Lit(V::Int(1)), E::Lit(V::Int(2))])), "x".into(), vec![e, E::call("t", vec![E::Lit(V::Int(100)), E::var("x")])]),
        7 => E::Macro(Mac::Map, b(E::List(vec![E::Lit(V::Int(1)), E::Lit(V::Int(2))])), "x".into(), vec![e, E::bin(Op::Div, E::var("x"), E::Lit(V::Int(0)))]),
        _ => E::Macro(Mac::Map, b(E::List(vec![E::Lit(V::Int(1)), E::Lit(V::Int(2))])), "x".into(), vec![E::bin(Op::Gt, E::var("x"), E::Lit(V::Int(1))), e]),
    }
}

fn mk(mut e: E, w: u8) -> Case {
    let mut n = 0;
    renumber(&mut e, &mut n);
    Case { expr: e, wrap: w }
}

pub fn check(c: &Case) -> Outcome {
    let full = wrap(c.expr.clone(), c.wrap);
    let variants = crate::props::c03::model_variants(&full, &[], &vec![], false);
    if let Err(Stop::Unsupported(w)) = &variants[0].0 {
        return Outcome::Skip(w);
    }
    // two spellings of the same tree: every operator application parenthesised, and only the parentheses the precedence
    // table requires (flat `a || b || c` chains, `c ? x : d ? y : z` ladders)
    let full_src = full.render();
    let min_src = crate::props::c04::render_min(&full, 0, &mut crate::props::c04::Ws { seps: &[], pos: 0 });
    let mut sources = vec![full_src.clone()];
    if min_src != full_src {
        sources.push(min_src);
    }
    let mut picked = None;
    for src in &sources {
        let (ran, log) = sut::run_logged(src, &[], &vec![]);
        let got = match ran {
            Ran::Done(r) => r,
            o => return fail(format!("`{src}`: {}", o.show())),
        };
        let k = variants.iter().position(|(_, st)| st.log == log).unwrap_or(0);
        let (model, st) = (variants[k].0.clone(), &variants[k].1);
        if log != st.log {
            return fail(format!("`{src}`: host calls that must happen {:?}, host calls observed {:?} (result model {:?}, interpreter {})", st.log, log, model, got.show()));
        }
        if !agree(&model, &got) {
            return fail(format!("`{src}`: model {:?}, interpreter {}", model, got.show()));
        }
        picked = Some(k);
    }
    let k = picked.unwrap_or(0);
    let (model, st) = (variants[k].0.clone(), &variants[k].1);
    let observable = c.expr.count(&|x| matches!(x, E::Call(n, ..) if n == "t" || n == "fail"));
    let raisers = c.expr.count(&|x| matches!(x, E::Call(n, ..) if n == "fail") || matches!(x, E::Bin(Op::Div | Op::Add, ..) | E::Select(..)) || matches!(x, E::Var(_)));
    let iterations = if c.wrap == 0 { 1 } else { st.macro_iterations.max(1) as usize };
    // a skipped operand is visible when fewer host calls happened than are written, or a raiser is written but the result is a value
    let skipped_observable = st.skipped_operand && ((st.log.len() < observable * iterations) || (raisers > 0 && model.is_ok()));
    let mut cl = vec![if c.wrap == 0 { "bare" } else { "inside-macro-body" }];
    cl.push(if model.is_ok() { "result:value" } else { "result:error" });
    if skipped_observable {
        cl.push("skipped-operand-observable");
    }
    pass_n(skipped_observable, cl)
}

fn gen_tree(u: &mut Chooser, depth: usize) -> E {
    if depth == 0 || !u.chance(5, 6) {
        return leaf(u.below(FULL));
    }
    match u.below(4) {
        0 => E::bin(Op::And, gen_tree(u, depth - 1), gen_tree(u, depth - 1)),
        1 => E::bin(Op::Or, gen_tree(u, depth - 1), gen_tree(u, depth - 1)),
        2 => E::Cond(b(gen_tree(u, depth - 1)), b(gen_tree(u, depth - 1)), b(gen_tree(u, depth - 1))),
        _ => E::Not(b(gen_tree(u, depth - 1))),
    }
}

pub fn run(r: &mut Runner) {
    r.rule = "cases: trees over &&, ||, ?: (and !) whose leaves are true/false, error raisers (1/0, overflow, missing key, undeclared name, failing host function) \
              and logging host calls t(id, bool) with ids in source order; exhaustive to depth 1 over the 15-leaf alphabet and to depth 2 over a 6-leaf alphabet, random \
              to depth 4, bare and as bodies of all/exists/exists_one/filter/map, as guard and as guarded transform of the three-argument map. Oracle: the reference evaluator's outcome class and exact ordered host-call log. \
              Non-trivial: an operand containing a host call or a raiser was skipped observably; distinct by (tree, embedding)."
        .into();
    r.assumptions = vec!["host functions observe evaluation only through their own invocation; literal arguments of t() are evaluated without side effects".into()];
    let n1 = depth1_count(FULL) as u64;
    r.sweep_fn("depth1-full-alphabet", n1 * 9, move |i| mk(depth1(FULL, (i / 9) as usize), (i % 9) as u8), check);
    // depth 2, binary root, children = all depth<=1 trees over the reduced alphabet
    let d1 = depth1_count(REDUCED) as u64;
    r.sweep_fn(
        "depth2-binary-root",
        2 * d1 * d1,
        move |i| {
            let op = if i < d1 * d1 { Op::And } else { Op::Or };
            let j = i % (d1 * d1);
            mk(E::bin(op, depth1(REDUCED, (j / d1) as usize), depth1(REDUCED, (j % d1) as usize)), 0)
        },
        check,
    );
    let b1 = bin1_count(REDUCED) as u64;
    r.sweep_fn(
        "depth2-conditional-root",
        b1 * b1 * b1,
        move |i| mk(E::Cond(b(depth1(REDUCED, (i / (b1 * b1)) as usize)), b(depth1(REDUCED, ((i / b1) % b1) as usize)), b(depth1(REDUCED, (i % b1) as usize))), 0),
        check,
    );
    {
        // conditionals directly inside conditionals (else-if chains and their mirror images), exhaustive over the reduced alphabet
        // quick: the 4-leaf alphabet true / false / 1/0 / t(id, true) (68^3 = 314 432 trees); thorough: the 6-leaf one (222^3 = 10.9 M)
        let leaves = r.tier.n(4, REDUCED as u64);
        let conds = leaves * leaves * leaves; // depth-1 conditionals
        let opts = leaves + conds; // a branch: a leaf or a conditional
        r.sweep_fn(
            "depth2-nested-conditionals",
            opts * opts * opts,
            move |i| {
                let pick = |k: u64| -> E {
                    if k < leaves {
                        leaf(k as usize)
                    } else {
                        let j = k - leaves;
                        E::Cond(b(leaf((j / (leaves * leaves)) as usize)), b(leaf(((j / leaves) % leaves) as usize)), b(leaf((j % leaves) as usize)))
                    }
                };
                mk(E::Cond(b(pick(i / (opts * opts))), b(pick((i / opts) % opts)), b(pick(i % opts))), 0)
            },
            check,
        );
    }
    let n = r.tier.n(15_000, 500_000);
    r.random(
        "random-depth-3-4",
        200,
        n,
        |u| {
            let d = 3 + u.below(2);
            let w = if u.chance(1, 3) { 1 + u.below(8) as u8 } else { 0 };
            mk(gen_tree(u, d), w)
        },
        check,
    );
    r.expect_class("skipped-operand-observable", 1000);
    r.expect_class("inside-macro-body", 1000);
}
