//! C13 — numeric literals and conversions preserve the number or fail.

use crate::chooser::Chooser;
use crate::engine::{fail, pass_n, Outcome, Runner};
use crate::gen::{gen_f64, gen_i64, gen_string, gen_u64};
use crate::model::eval::{conv_double, conv_int, conv_string, conv_uint, Stop};
use crate::model::num::{exact_decimal, f64_boundary, i64_boundary, u64_boundary};
use crate::model::{same, ErrClass, F, V};
use crate::sut::{self, Ran, R};
use serde::{Deserialize, Serialize};

#[derive(Clone, Debug, Serialize, Deserialize)]
pub enum Case {
    /// literal source, expected value (None = must be a compile error)
    Lit { src: String, expect: Option<V>, form: String },
    /// conversion function, argument, call style (0 receiver, 1 global; 2 / 3 the same with the argument written as a literal)
    Conv { func: String, arg: V, style: u8 },
    /// string() followed by the inverse conversion
    Round { value: V },
    /// several conversions evaluated one after the other inside one program: `[f0(x0), f1(x1), ...]`; each element is what
    /// the conversion gives on its own (arguments whose 64-bit patterns or numeric values coincide across types are the point)
    Seq { items: Vec<(String, V)> },
}

fn edge_class(v: &V) -> (bool, &'static str) {
    match v {
        V::Int(i) => (i.unsigned_abs() >= (1 << 53) - 1 || *i < 0, "int"),
        V::UInt(u) => (*u >= (1 << 53) - 1, "uint"),
        V::Float(f) => {
            let x = f.0;
            let near = |b: f64| (x - b).abs() <= b.abs() * 1e-15 * 8.0;
            (!x.is_finite() || x == 0.0 || near(9223372036854775808.0) || near(-9223372036854775808.0) || near(18446744073709551616.0) || near(9007199254740992.0) || x.abs() < 1e-300 || x.fract() != 0.0, "double")
        }
        V::Str(_) => (true, "string"),
        _ => (false, "other"),
    }
}

pub fn check(c: &Case) -> Outcome {
    match c {
        Case::Lit { src, expect, form } => {
            let ran = sut::run_src(src, &[]);
            let form_class: &'static str = match form.as_str() {
                "decimal" => "lit:decimal",
                "hex" => "lit:hex",
                "signed" => "lit:signed",
                "leading-zeros" => "lit:leading-zeros",
                "shortest" => "lit:double-shortest",
                "exponent" => "lit:double-exponent",
                "fixed" => "lit:double-fixed",
                "exact-dyadic" => "lit:double-exact-dyadic",
                "leading-dot" => "lit:double-leading-dot",
                "out-of-range" => "lit:out-of-range",
                _ => "lit:other",
            };
            match (expect, ran) {
                (Some(v), Ran::Done(R::Val(g))) => {
                    if same(v, &g) {
                        pass_n(edge_class(v).0 || form != "decimal", vec![form_class])
                    } else {
                        fail(format!("literal `{src}` denotes {v:?}, evaluates to {g:?}"))
                    }
                }
                (None, Ran::NoCompile(_)) => pass_n(true, vec![form_class]),
                (Some(v), o) => fail(format!("literal `{src}` denotes {v:?}, observed {}", o.show())),
                (None, o) => fail(format!("literal `{src}` is out of range and must be a compile error, observed {}", o.show())),
            }
        }
        Case::Conv { func, arg, style } => {
            let model = match func.as_str() {
                "int" => conv_int(arg),
                "uint" => conv_uint(arg),
                "double" => conv_double(arg),
                "string" => conv_string(arg),
                _ => match arg {
                    V::Str(s) => Ok(V::Bytes(s.clone().into_bytes())),
                    _ => Err(Stop::Err(ErrClass::Other)),
                },
            };
            if let Err(Stop::Unsupported(w)) = &model {
                // still: no panic
                let src = if *style == 0 && func != "bytes" { format!("x.{func}()") } else { format!("{func}(x)") };
                return match sut::run_src(&src, &[("x".into(), arg.clone())]) {
                    Ran::Done(R::Panic(p)) => fail(format!("`{src}` x={arg:?}: {}", p.short())),
                    _ => Outcome::Skip(w),
                };
            }
            // styles 2 / 3: the argument written out as a literal inside the program
            let operand = match (*style >= 2, crate::model::lit::lit(arg)) {
                (true, Some(l)) => l,
                (true, None) => return Outcome::Skip("no-literal-form"),
                _ => "x".to_string(),
            };
            let src = if *style % 2 == 0 && func != "bytes" { format!("{operand}.{func}()") } else { format!("{func}({operand})") };
            let got = match sut::run_src(&src, &[("x".into(), arg.clone())]) {
                Ran::Done(r) => r,
                o => return fail(format!("`{src}`: {}", o.show())),
            };
            let ok = match (&model, &got) {
                (Ok(v), R::Val(g)) => same(v, g),
                // "an error when the argument … lies outside the range": any error class is accepted
                (Err(Stop::Err(_)), R::Err(..)) => true,
                _ => false,
            };
            if !ok {
                return fail(format!("`{src}` with x = {arg:?}: the mathematically corresponding result is {:?}, observed {}", model, got.show()));
            }
            let (edge, k) = edge_class(arg);
            let class: &'static str = match (func.as_str(), k, model.is_ok()) {
                ("int", "double", true) => "int(double)->value",
                ("int", "double", false) => "int(double)->error",
                ("uint", "double", true) => "uint(double)->value",
                ("uint", "double", false) => "uint(double)->error",
                ("int", "uint", _) | ("uint", "int", _) => "int<->uint",
                ("double", _, _) => "double(int|uint)",
                ("string", _, _) => "string(x)",
                ("bytes", _, _) => "bytes(x)",
                (_, "string", true) => "number(string)->value",
                (_, "string", false) => "number(string)->error",
                _ => "conv:other",
            };
            pass_n(edge, vec![class])
        }
        Case::Seq { items } => {
            let conv = |func: &str, arg: &V| match func {
                "int" => conv_int(arg),
                "uint" => conv_uint(arg),
                "double" => conv_double(arg),
                _ => conv_string(arg),
            };
            let mut exp = vec![];
            let mut first_err = None;
            for (k, (f, a)) in items.iter().enumerate() {
                match conv(f, a) {
                    Ok(v) => exp.push(v),
                    Err(Stop::Unsupported(w)) => return Outcome::Skip(w),
                    Err(_) => {
                        first_err = Some(k);
                        break;
                    }
                }
            }
            let vars: Vec<(String, V)> = items.iter().enumerate().map(|(k, (_, a))| (format!("x{k}"), a.clone())).collect();
            let src = format!("[{}]", items.iter().enumerate().map(|(k, (f, _))| if k % 2 == 0 { format!("{f}(x{k})") } else { format!("x{k}.{f}()") }).collect::<Vec<_>>().join(", "));
            let got = match sut::run_src(&src, &vars) {
                Ran::Done(r) => r,
                o => return fail(format!("`{src}` {vars:?}: {}", o.show())),
            };
            let ok = match (&first_err, &got) {
                (None, R::Val(V::List(g))) => g.len() == exp.len() && g.iter().zip(&exp).all(|(a, b)| same(a, b)),
                (Some(_), R::Err(..)) => true,
                _ => false,
            };
            if !ok {
                return fail(format!("`{src}` with {vars:?}: element by element the conversions give {exp:?}{}, observed {}", if first_err.is_some() { " and then an error" } else { "" }, got.show()));
            }
            let kinds: std::collections::BTreeSet<&str> = items.iter().map(|(_, a)| a.kind()).collect();
            pass_n(kinds.len() >= 2, vec![if kinds.len() >= 2 { "sequence:mixed-argument-types" } else { "sequence:one-argument-type" }])
        }
        Case::Round { value } => {
            let (inv, wrap): (&str, &str) = match value {
                V::Int(_) => ("int", "string"),
                V::UInt(_) => ("uint", "string"),
                V::Float(_) => ("double", "string"),
                V::Str(_) => ("string", if false { "" } else { "bytes" }),
                _ => return Outcome::Skip("no-round-trip"),
            };
            let vars = vec![("x".to_string(), value.clone())];
            let mut progs = vec![format!("{inv}({wrap}(x))"), format!("x.{wrap}().{inv}()")];
            if matches!(value, V::Str(_)) {
                progs = vec!["string(bytes(x))".into(), "string(string(x))".into(), "x.string().string()".into()];
            }
            for p in &progs {
                match sut::run_src(p, &vars) {
                    Ran::Done(R::Val(g)) => {
                        if !same(value, &g) {
                            // string(double) prints e.g. "NaN"; NaN is one class (handled by same)
                            return fail(format!("`{p}` with x = {value:?}: the round trip returns {g:?}"));
                        }
                    }
                    o => return fail(format!("`{p}` with x = {value:?}: {}", o.show())),
                }
            }
            pass_n(edge_class(value).0, vec![match value {
                V::Int(_) => "round-trip:int",
                V::UInt(_) => "round-trip:uint",
                V::Float(_) => "round-trip:double",
                _ => "round-trip:string",
            }])
        }
    }
}

fn int_lits(i: i64, out: &mut Vec<Case>) {
    let v = Some(V::Int(i));
    out.push(Case::Lit { src: i.to_string(), expect: v.clone(), form: if i < 0 { "signed" } else { "decimal" }.into() });
    let mag = i.unsigned_abs();
    let sign = if i < 0 { "-" } else { "" };
    out.push(Case::Lit { src: format!("{sign}0x{mag:x}"), expect: v.clone(), form: "hex".into() });
    out.push(Case::Lit { src: format!("{sign}0x{mag:X}"), expect: v.clone(), form: "hex".into() });
    out.push(Case::Lit { src: format!("{sign}00{mag}"), expect: v.clone(), form: "leading-zeros".into() });
    if i < 0 {
        out.push(Case::Lit { src: format!("- {mag}"), expect: v.clone(), form: "signed".into() });
        out.push(Case::Lit { src: format!("({i})"), expect: v.clone(), form: "signed".into() });
    }
    // as an operand (the literal must survive a context)
    out.push(Case::Lit { src: format!("[{i}][0]"), expect: v, form: if i < 0 { "signed" } else { "decimal" }.into() });
    if i > 0 {
        out.push(Case::Lit { src: format!("[-{i}, {i}, -0x{i:x}, 0x{i:x}]"), expect: Some(V::List(vec![V::Int(-i), V::Int(i), V::Int(-i), V::Int(i)])), form: "signed".into() });
    }
}

fn uint_lits(u: u64, out: &mut Vec<Case>) {
    let v = Some(V::UInt(u));
    out.push(Case::Lit { src: format!("{u}u"), expect: v.clone(), form: "decimal".into() });
    out.push(Case::Lit { src: format!("{u}U"), expect: v.clone(), form: "decimal".into() });
    out.push(Case::Lit { src: format!("0x{u:x}u"), expect: v.clone(), form: "hex".into() });
    out.push(Case::Lit { src: format!("0x{u:X}U"), expect: v.clone(), form: "hex".into() });
    out.push(Case::Lit { src: format!("000{u}u"), expect: v, form: "leading-zeros".into() });
}

fn double_lits(f: f64, out: &mut Vec<Case>) {
    if !f.is_finite() {
        return;
    }
    let v = Some(V::Float(F(f)));
    out.push(Case::Lit { src: format!("{:?}", f), expect: v.clone(), form: "shortest".into() });
    // {:e} gives e.g. 1.5e-7 / 1e0: NUM_FLOAT needs a fraction or an exponent — both present here
    out.push(Case::Lit { src: format!("{:e}", f), expect: v.clone(), form: "exponent".into() });
    out.push(Case::Lit { src: format!("{:E}", f).replace("E", "E+").replace("E+-", "E-"), expect: v.clone(), form: "exponent".into() });
    if let Some(x) = exact_decimal(f) {
        if x.len() <= 1200 {
            out.push(Case::Lit { src: x.clone(), expect: v.clone(), form: "exact-dyadic".into() });
            if let Some(rest) = x.strip_prefix("0.") {
                out.push(Case::Lit { src: format!(".{rest}"), expect: v.clone(), form: "leading-dot".into() });
            }
            if let Some(rest) = x.strip_prefix("-0.") {
                out.push(Case::Lit { src: format!("-.{rest}"), expect: v.clone(), form: "leading-dot".into() });
            }
        }
    }
    // the same spelling under both signs in one program
    if f > 0.0 {
        let sp = format!("{:?}", f);
        out.push(Case::Lit { src: format!("[-{sp}, {sp}, -{sp}]"), expect: Some(V::List(vec![V::f(-f), V::f(f), V::f(-f)])), form: "shortest".into() });
        out.push(Case::Lit { src: format!("[{sp}, -{sp}]"), expect: Some(V::List(vec![V::f(f), V::f(-f)])), form: "shortest".into() });
    }
    if f.abs() < 1e22 && f.abs() >= 1e-7 || f == 0.0 {
        out.push(Case::Lit { src: format!("{:.30}", f), expect: None, form: "skip".into() });
    }
}

fn conv_cases(arg: &V, out: &mut Vec<Case>) {
    for func in ["int", "uint", "double", "string", "bytes"] {
        for style in 0..4u8 {
            out.push(Case::Conv { func: func.into(), arg: arg.clone(), style });
        }
    }
}

pub fn run(r: &mut Runner) {
    r.rule = "cases: literals of the i64 / u64 boundary sets and random 64-bit patterns spelled as decimal, hex (both cases), signed (incl. -9223372036854775808 and negative hex), with leading zeros and u/U suffixes; finite doubles (boundary set and random \
              bit patterns) spelled shortest-round-trip, with e / E+ exponents, leading dot, and as the *exact decimal expansion of the dyadic rational* (expected bits known without any parser); out-of-range forms expecting a compile error. \
              Conversions int / uint / double / string / bytes in both call styles over ints, uints, doubles (NaN, +-inf, +-2^63 and 2^64 and their neighbours by one ulp, +-2^53+-1, subnormals, -0.0), numeric and non-numeric strings; \
              several conversions inside one program over arguments that coincide as bit patterns or as numbers across types; round trips int(string(i)), uint(string(u)), double(string(d)) (bit-equal, NaN as a class), string(string(s)), string(bytes(s)). Oracle: exact range tests on the truncated value / i128 arithmetic / nearest-double by integer rounding. \
              Non-trivial: within 2 ulp / +-2 of a range edge, non-finite, -0.0, a hex / exponent / signed spelling, or a pattern with a high bit set; distinct by (form or function, bits)."
        .into();
    r.assumptions = vec![
        "not asserted: int(-9223372036854775808.0), uint(x) for -1 < x < 0, double literals that underflow, double() of a string, string() of invalid UTF-8 (only: no panic)".into(),
        "string(double) is only checked through the round trip double(string(d))".into(),
    ];
    let mut fixed: Vec<Case> = vec![];
    for i in i64_boundary() {
        int_lits(i, &mut fixed);
        conv_cases(&V::Int(i), &mut fixed);
        fixed.push(Case::Round { value: V::Int(i) });
    }
    for u in u64_boundary() {
        uint_lits(u, &mut fixed);
        conv_cases(&V::UInt(u), &mut fixed);
        fixed.push(Case::Round { value: V::UInt(u) });
    }
    let up = |x: f64| f64::from_bits(x.to_bits() + 1);
    let down = |x: f64| f64::from_bits(x.to_bits() - 1);
    let mut fs = f64_boundary();
    for b in [9223372036854775808.0f64, 18446744073709551616.0, 9007199254740992.0, 4294967296.0, 1.0, 0.5] {
        for x in [b, up(b), down(b), up(up(b)), down(down(b)), -b, -up(b), -down(b), b + 0.5, b - 0.5, -(b + 0.5)] {
            fs.push(x);
        }
    }
    fs.extend([f64::MIN_POSITIVE, f64::from_bits(1), f64::from_bits(0x000f_ffff_ffff_ffff), 1e-320, 5e-324, 0.1, 0.3, 1.0 / 3.0, 2.5, -2.5, 1e15 + 0.5, 123456789012345678.0, 1e21, 1e22, 1e23, 255.999]);
    for f in &fs {
        double_lits(*f, &mut fixed);
        conv_cases(&V::Float(F(*f)), &mut fixed);
        fixed.push(Case::Round { value: V::Float(F(*f)) });
    }
    fixed.retain(|c| !matches!(c, Case::Lit { form, .. } if form == "skip"));
    for s in ["9223372036854775808", "-9223372036854775809", "0x8000000000000000", "-0x8000000000000001", "18446744073709551616u", "0x10000000000000000u", "99999999999999999999", "99999999999999999999u", "1e309", "-1e309", "1.8e308", "2e308", "1e400", "179769313486231580793728971405303415079934132710037826936173778980444968292764750946649017977587207096330286416692887910946555547851940402630657488671505820681908902000708383676273854845817711531764475730270069855571366959622842914819860834936475292719074168444365510704342711559699508093042880177904174497792.0"] {
        fixed.push(Case::Lit { src: s.to_string(), expect: None, form: "out-of-range".into() });
        fixed.push(Case::Lit { src: format!("[{s}]"), expect: None, form: "out-of-range".into() });
        // also where the literal would never be evaluated
        fixed.push(Case::Lit { src: format!("true ? 1 : {s}"), expect: None, form: "out-of-range".into() });
        fixed.push(Case::Lit { src: format!("false ? {s} : 1"), expect: None, form: "out-of-range".into() });
        fixed.push(Case::Lit { src: format!("false && {s} == 1"), expect: None, form: "out-of-range".into() });
    }
    for s in ["", "0", "-0", "1", "-1", "9223372036854775807", "-9223372036854775808", "9223372036854775808", "-9223372036854775809", "18446744073709551615", "18446744073709551616", " 1", "1 ", "+1", "0x10", "1e3", "1.0", "abc", "１", "٣", "1_000", "--1", "é", "𝄞x", "NaN", "inf"] {
        conv_cases(&V::s(s), &mut fixed);
        fixed.push(Case::Round { value: V::s(s) });
    }
    {
        // arguments that coincide as 64-bit patterns or as numbers across types
        let t: Vec<V> = vec![V::Int(-1), V::UInt(u64::MAX), V::Int(i64::MIN), V::UInt(1 << 63), V::Int(i64::MAX), V::UInt(i64::MAX as u64), V::Int(1), V::UInt(1), V::f(1.0), V::Int(0), V::UInt(0), V::f(0.0), V::f(-0.0), V::f(-1.0), V::s("1"), V::s("-1"), V::f(4607182418800017408.0), V::Int(4607182418800017408)];
        for f in ["string", "int", "uint", "double"] {
            for a in &t {
                for b in &t {
                    fixed.push(Case::Seq { items: vec![(f.to_string(), a.clone()), (f.to_string(), b.clone()), (f.to_string(), a.clone())] });
                }
            }
        }
    }
    r.sweep("boundary-literals-and-conversions", fixed, check);
    let n = r.tier.n(8_000, 400_000);
    r.random(
        "random-int-uint-literals",
        8,
        n,
        |u: &mut Chooser| {
            let mut v = vec![];
            if u.flip() {
                int_lits(gen_i64(u), &mut v);
            } else {
                uint_lits(gen_u64(u), &mut v);
            }
            let k = u.below(v.len());
            v.swap_remove(k)
        },
        check,
    );
    r.random(
        "random-double-literals",
        8,
        n,
        |u: &mut Chooser| {
            let mut v = vec![];
            let mut f = gen_f64(u);
            if !f.is_finite() {
                f = 0.75;
            }
            double_lits(f, &mut v);
            v.retain(|c| !matches!(c, Case::Lit { form, .. } if form == "skip"));
            let k = u.below(v.len());
            v.swap_remove(k)
        },
        check,
    );
    r.random(
        "random-conversions",
        12,
        n,
        |u: &mut Chooser| {
            let arg = match u.below(5) {
                0 => V::Int(gen_i64(u)),
                1 => V::UInt(gen_u64(u)),
                2 | 3 => {
                    // doubles concentrated around the integer range edges
                    let base = *u.pick(&[9223372036854775808.0f64, -9223372036854775808.0, 18446744073709551616.0, 0.0, 9007199254740992.0, 1e19, -1.0]);
                    let f = match u.below(3) {
                        0 => f64::from_bits((base.to_bits() as i64 + u.range(-4, 4)) as u64),
                        1 => gen_f64(u),
                        _ => base + u.range(-3, 3) as f64 * 0.5,
                    };
                    V::Float(F(f))
                }
                _ => V::Str(match u.below(4) {
                    0 => gen_i64(u).to_string(),
                    1 => gen_u64(u).to_string(),
                    2 => format!("{}{}", gen_u64(u), gen_u64(u)),
                    _ => gen_string(u),
                }),
            };
            Case::Conv { func: u.pick(&["int", "uint", "double", "string", "bytes"]).to_string(), arg, style: u.below(4) as u8 }
        },
        check,
    );
    r.random(
        "random-conversion-sequences",
        24,
        n / 2,
        |u: &mut Chooser| {
            let bits = u.bits64();
            let base = match u.below(3) {
                0 => bits,
                1 => *u.pick(&[u64::MAX, 1 << 63, 0, 1, (1 << 63) - 1, (1 << 53) + 1]),
                _ => gen_u64(u),
            };
            // the same 64 bits read as int, uint and double, and the same number in each type that can hold it
            let views = [V::Int(base as i64), V::UInt(base), V::f(f64::from_bits(base)), V::f(base as f64), V::f(base as i64 as f64), V::Str((base as i64).to_string()), V::Str(base.to_string())];
            let k = 2 + u.below(4);
            Case::Seq { items: (0..k).map(|_| (u.pick(&["string", "string", "int", "uint", "double"]).to_string(), u.pick(&views).clone())).collect() }
        },
        check,
    );
    r.random(
        "random-round-trips",
        10,
        n,
        |u: &mut Chooser| {
            Case::Round {
                value: match u.below(4) {
                    0 => V::Int(gen_i64(u)),
                    1 => V::UInt(gen_u64(u)),
                    2 => V::Float(F(gen_f64(u))),
                    _ => V::Str(gen_string(u)),
                },
            }
        },
        check,
    );
    for c in ["lit:hex", "lit:signed", "lit:double-exact-dyadic", "lit:out-of-range", "int(double)->error", "uint(double)->error", "int(double)->value", "round-trip:double"] {
        r.expect_class(c, 20);
    }
}
