//! C09 — equality and ordering are coherent and numerically exact across types.

use crate::chooser::Chooser;
use crate::engine::{fail, guard, pass_n, Outcome, Runner};
use crate::gen::{gen_value, ValOpts};
use crate::model::eval::{cel_eq, is_num, num_cmp, Stop};
use crate::model::{lit, same, F, V};
use crate::sut::{self, to_cel, Ran, R};
use cel_interpreter::Value;
use serde::{Deserialize, Serialize};
use std::cmp::Ordering;

pub fn bset() -> Vec<V> {
    let p53 = 9007199254740992i64;
    let up = |x: f64| f64::from_bits(x.to_bits() + 1);
    let down = |x: f64| f64::from_bits(x.to_bits() - 1);
    let p63 = 9223372036854775808.0f64;
    let p64 = 18446744073709551616.0f64;
    let mut v: Vec<V> = vec![];
    for i in [0, 1, -1, 2, p53 - 1, p53, p53 + 1, -(p53 + 1), i64::MAX, i64::MAX - 1, i64::MIN, i64::MIN + 1] {
        v.push(V::Int(i));
    }
    for u in [0u64, 1, 2, (p53 + 1) as u64, (1 << 63) - 1, 1 << 63, (1 << 63) + 1, u64::MAX, u64::MAX - 1] {
        v.push(V::UInt(u));
    }
    for f in [0.0, -0.0, 0.5, 1.0, -1.0, 1.5, -1.5, 2.0, p53 as f64, (p53 + 2) as f64, -(p53 as f64), p63, -p63, down(p63), up(p63), -up(p63), p64, down(p64), up(p64), f64::INFINITY, f64::NEG_INFINITY, f64::NAN, f64::MAX, f64::MIN_POSITIVE] {
        v.push(V::Float(F(f)));
    }
    for s in ["", "a", "b", "aa", "ä", "z", "\u{10000}", "\u{ffff}", "A"] {
        v.push(V::s(s));
    }
    v.extend([V::Bool(false), V::Bool(true), V::Null, V::Bytes(vec![]), V::Bytes(b"a".to_vec()), V::Bytes(vec![0xff])]);
    v.extend([
        V::List(vec![]),
        V::List(vec![V::Int(1)]),
        V::List(vec![V::UInt(1)]),
        V::List(vec![V::f(1.0)]),
        V::List(vec![V::List(vec![V::Int(1)])]),
        V::List(vec![V::f(f64::NAN)]),
        V::List(vec![V::Int(1), V::Int(2)]),
        V::List(vec![V::Int(p53 + 1)]),
        V::List(vec![V::f(p53 as f64)]),
    ]);
    v.extend([
        V::Map(vec![]),
        V::Map(vec![(V::s("a"), V::Int(1))]),
        V::Map(vec![(V::s("a"), V::UInt(1))]),
        V::Map(vec![(V::s("a"), V::f(1.0))]),
        V::Map(vec![(V::Int(1), V::s("x"))]),
        V::Map(vec![(V::s("a"), V::Int(1)), (V::s("b"), V::Int(2))]),
        V::Map(vec![(V::s("b"), V::Int(2)), (V::s("a"), V::Int(1))]),
        V::Map(vec![(V::s("a"), V::Int(2))]),
        V::Map(vec![(V::UInt(1), V::s("x"))]),
        V::Map(vec![(V::UInt(2), V::s("y")), (V::UInt(1), V::s("x"))]),
        V::Map(vec![(V::Bool(true), V::List(vec![V::UInt(1)]))]),
        // a number under both integer key types (what such a map equals is not asserted, that equality is symmetric is)
        V::Map(vec![(V::Int(1), V::s("x")), (V::UInt(1), V::s("x"))]),
        V::Map(vec![(V::Int(1), V::s("x")), (V::Int(2), V::s("z"))]),
    ]);
    v.extend([V::dur_ns(0), V::dur_ns(1), V::dur_ns(-1), V::dur_ns(1_000_000_000), V::dur_ns(999_999_999)]);
    // host-built durations beyond 64-bit nanoseconds (300 and 400 years, and their negatives) still order by length
    v.extend([V::dur_ns(9_467_085_600_000_000_000), V::dur_ns(12_622_780_800_000_000_000), V::dur_ns(-9_467_085_600_000_000_000), V::dur_ns(i64::MAX as i128), V::dur_ns(i64::MAX as i128 + 1)]);
    v.extend([V::Ts(1685232000, 0, 0), V::Ts(1685232000, 1, 0), V::Ts(1685232000, 0, 3600), V::Ts(1685231999, 999_999_999, -3600), V::Ts(-62135596800, 0, 0)]);
    v
}

/// the specification: Some(true/false) or None = not asserted
pub fn model_eq(a: &V, b: &V) -> Option<bool> {
    match cel_eq(a, b) {
        Ok(x) => Some(x),
        Err(Stop::Unsupported(_)) => None,
        Err(_) => None,
    }
}

#[derive(Debug, PartialEq, Clone, Copy)]
pub enum Ord3 {
    /// the statement fixes the order
    Is(Ordering),
    /// must not be orderable (unrelated kinds, NaN)
    Unordered,
    /// whether an order exists is not asserted (bool, null, bytes, lists, maps); only coherence is
    Free,
}

pub fn model_cmp(a: &V, b: &V) -> Ord3 {
    if is_num(a) && is_num(b) {
        return match num_cmp(a, b).unwrap() {
            Some(o) => Ord3::Is(o),
            None => Ord3::Unordered,
        };
    }
    match (a, b) {
        (V::Str(x), V::Str(y)) => Ord3::Is(x.as_bytes().cmp(y.as_bytes())), // UTF-8 byte order is code point order
        (V::Dur(..), V::Dur(..)) => Ord3::Is(a.dur_total_ns().cmp(&b.dur_total_ns())),
        (V::Ts(..), V::Ts(..)) => Ord3::Is(a.ts_total_ns().cmp(&b.ts_total_ns())),
        _ if a.kind() == b.kind() => Ord3::Free,
        _ => Ord3::Unordered,
    }
}

#[derive(Clone, Debug, Serialize, Deserialize)]
pub struct Pair {
    pub a: V,
    pub b: V,
}
#[derive(Clone, Debug, Serialize, Deserialize)]
pub struct Triple {
    pub a: V,
    pub b: V,
    pub c: V,
}

fn nontrivial_pair(a: &V, b: &V) -> (bool, &'static str) {
    let big = |v: &V| match v {
        V::Int(i) => i.unsigned_abs() >= 1 << 53,
        V::UInt(u) => *u >= 1 << 53,
        V::Float(f) => f.0.abs() >= 9007199254740992.0,
        _ => false,
    };
    let special = |v: &V| matches!(v, V::Float(f) if f.0.is_nan() || f.0.is_infinite() || f.0 == 0.0);
    if is_num(a) && is_num(b) && a.kind() != b.kind() && (big(a) || big(b)) {
        (true, "cross-type-numeric>=2^53")
    } else if is_num(a) && is_num(b) && a.kind() != b.kind() && num_cmp(a, b).unwrap() == Some(Ordering::Equal) {
        (true, "equal-by-value-different-type")
    } else if special(a) || special(b) {
        (true, "nan-zero-inf")
    } else if matches!(a, V::List(_) | V::Map(_)) || matches!(b, V::List(_) | V::Map(_)) {
        (true, "compound")
    } else if a.kind() != b.kind() {
        (false, "unrelated-kinds")
    } else {
        (false, "same-kind")
    }
}

pub fn check_direct_pair(c: &Pair) -> Outcome {
    let (Some(a), Some(b)) = (to_cel(&c.a), to_cel(&c.b)) else { return Outcome::Skip("not-representable") };
    let r = guard(|| (a == b, b == a, a.partial_cmp(&b), b.partial_cmp(&a), a != b));
    let (eab, eba, cab, cba, neab) = match r {
        Ok(x) => x,
        Err(p) => return fail(format!("{:?} vs {:?}: {}", c.a, c.b, p.short())),
    };
    let ctx = format!("a={:?} b={:?}", c.a, c.b);
    if eab != eba {
        return fail(format!("{ctx}: a == b is {eab} but b == a is {eba}"));
    }
    if neab == eab {
        return fail(format!("{ctx}: a != b ({neab}) is not the negation of a == b ({eab})"));
    }
    if let Some(m) = model_eq(&c.a, &c.b) {
        if m != eab {
            return fail(format!("{ctx}: Value::eq gives {eab}, the values denoted are {}", if m { "equal" } else { "different" }));
        }
    }
    // the comparison operators a host writes in Rust (`a < b`, `a <= b` ...) are the ones partial_cmp defines
    match guard(|| (a < b, a <= b, a > b, a >= b)) {
        Err(p) => return fail(format!("{ctx}: {}", p.short())),
        Ok((lt, le, gt, ge)) => {
            let want = match cab {
                Some(o) => (o == Ordering::Less, o != Ordering::Greater, o == Ordering::Greater, o != Ordering::Less),
                None => (false, false, false, false),
            };
            if (lt, le, gt, ge) != want {
                return fail(format!("{ctx}: the operators give < {lt}, <= {le}, > {gt}, >= {ge} while partial_cmp gives {cab:?} (`a <= b` iff `a < b || a == b`; unordered values satisfy none)"));
            }
        }
    }
    if cab.map(|o| o.reverse()) != cba {
        return fail(format!("{ctx}: partial_cmp(a,b) = {cab:?} but partial_cmp(b,a) = {cba:?}"));
    }
    if let Some(o) = cab {
        if (o == Ordering::Equal) != eab {
            return fail(format!("{ctx}: ordered as {o:?} while a == b is {eab}: not exactly one of <, ==, > holds"));
        }
    }
    match model_cmp(&c.a, &c.b) {
        Ord3::Is(o) => {
            if cab != Some(o) {
                return fail(format!("{ctx}: partial_cmp gives {cab:?}, the values denoted compare as {o:?}"));
            }
        }
        Ord3::Unordered => {
            if cab.is_some() {
                return fail(format!("{ctx}: partial_cmp gives {cab:?} for values that are not orderable (unrelated types or NaN)"));
            }
        }
        Ord3::Free => {}
    }
    let (nt, cl) = nontrivial_pair(&c.a, &c.b);
    pass_n(nt, vec![cl, "direct-pair"])
}

pub fn check_direct_triple(c: &Triple) -> Outcome {
    let (Some(a), Some(b), Some(cc)) = (to_cel(&c.a), to_cel(&c.b), to_cel(&c.c)) else { return Outcome::Skip("not-representable") };
    triple_laws(&a, &b, &cc, c)
}

fn triple_laws(a: &Value, b: &Value, cc: &Value, c: &Triple) -> Outcome {
    let r = guard(|| (a.partial_cmp(b), b.partial_cmp(cc), a.partial_cmp(cc), a == b, b == cc, a == cc));
    let (ab, bc, ac, eab, ebc, eac) = match r {
        Ok(x) => x,
        Err(p) => return fail(format!("{:?}: {}", c, p.short())),
    };
    let ctx = format!("a={:?} b={:?} c={:?}", c.a, c.b, c.c);
    if eab && ebc && !eac {
        return fail(format!("{ctx}: a == b and b == c but a != c (equality is not transitive)"));
    }
    let le = |o: Option<Ordering>| matches!(o, Some(Ordering::Less) | Some(Ordering::Equal));
    if ab == Some(Ordering::Less) && bc == Some(Ordering::Less) && ac != Some(Ordering::Less) {
        return fail(format!("{ctx}: a < b and b < c but partial_cmp(a, c) = {ac:?} (order is not transitive)"));
    }
    if le(ab) && le(bc) && !le(ac) {
        return fail(format!("{ctx}: a <= b and b <= c but partial_cmp(a, c) = {ac:?} (order is not transitive)"));
    }
    let chain = ab.is_some() && bc.is_some();
    let kinds = (c.a.kind() != c.b.kind()) as u8 + (c.b.kind() != c.c.kind()) as u8;
    pass_n(chain && kinds > 0 || (eab && ebc), vec![if chain { "triple-ordered-chain" } else { "triple-unordered" }])
}

/// a value compared with an alias of itself (same Arc-shared storage): equality must still be decided by the
/// contents — a list holding NaN is not equal to itself
#[derive(Clone, Debug, Serialize, Deserialize)]
pub struct Alias {
    pub v: V,
}

pub fn check_alias(c: &Alias) -> Outcome {
    let Some(a) = to_cel(&c.v) else { return Outcome::Skip("not-representable") };
    let b = a.clone();
    let want = model_eq(&c.v, &c.v);
    let r = guard(|| (a == b, a != b, a.partial_cmp(&b)));
    let (eq, ne, cmp) = match r {
        Ok(x) => x,
        Err(p) => return fail(format!("{:?} compared with its own clone: {}", c.v, p.short())),
    };
    if eq == ne {
        return fail(format!("{:?} compared with its own clone: == is {eq} and != is {ne}", c.v));
    }
    if let Some(w) = want {
        if w != eq {
            return fail(format!("{:?} compared with a clone sharing its storage: == gives {eq}, element-wise equality gives {w} (NaN is unequal to itself)", c.v));
        }
    }
    if let Some(o) = cmp {
        if (o == Ordering::Equal) != eq {
            return fail(format!("{:?} compared with its own clone: ordered as {o:?} while == is {eq}", c.v));
        }
    }
    // the same through programs: one variable on both sides, and an element of a collection against itself
    let vars = vec![("x".to_string(), c.v.clone()), ("l".to_string(), V::List(vec![c.v.clone()]))];
    for (src, expect) in [("x == x", want), ("x != x", want.map(|w| !w)), ("l == l", want), ("l[0] == l[0]", want), ("x in [x]", want), ("x in l", want), ("[x].all(y, y == y)", want), ("{'k': x} == {'k': x}", want)] {
        match sut::run_src(src, &vars) {
            Ran::Done(R::Val(V::Bool(g))) => {
                if let Some(w) = expect {
                    if g != w {
                        return fail(format!("`{src}` with x = {:?}: expected {w} (equality is decided by the contents; NaN is unequal to itself), observed {g}", c.v));
                    }
                }
            }
            o => return fail(format!("`{src}` with x = {:?}: {}", c.v, o.show())),
        }
    }
    let has_nan = c.v.any(&|x| matches!(x, V::Float(f) if f.0.is_nan()));
    pass_n(has_nan || matches!(c.v, V::List(_) | V::Map(_)), vec![if has_nan { "aliased-value-containing-nan" } else { "aliased-value" }])
}

#[derive(Clone, Debug, Serialize, Deserialize)]
pub struct ProgPair {
    pub a: V,
    pub b: V,
    /// 0 variables, 1 literals, 2 a as variable and b as literal, 3 a as literal and b as variable
    pub form: u8,
}

const RELS: [&str; 6] = ["==", "!=", "<", "<=", ">", ">="];

pub fn check_program_pair(c: &ProgPair) -> Outcome {
    let (Some(ca), Some(cb)) = (to_cel(&c.a), to_cel(&c.b)) else { return Outcome::Skip("not-representable") };
    let (la, lb) = (lit::lit(&c.a), lit::lit(&c.b));
    let literal = c.form >= 1;
    if (matches!(c.form, 1 | 3) && la.is_none()) || (matches!(c.form, 1 | 2) && lb.is_none()) {
        return Outcome::Skip("no-literal-form");
    }
    let vars = if c.form == 1 { vec![] } else { vec![("x".to_string(), c.a.clone()), ("y".to_string(), c.b.clone())] };
    let sa = if matches!(c.form, 1 | 3) { la.unwrap() } else { "x".to_string() };
    let sb = if matches!(c.form, 1 | 2) { lb.unwrap() } else { "y".to_string() };
    let direct_eq = ca == cb;
    let direct_cmp = ca.partial_cmp(&cb);
    let mut results: Vec<Option<bool>> = vec![];
    for rel in RELS {
        let src = format!("{sa} {rel} {sb}");
        match sut::run_src(&src, &vars) {
            Ran::Done(R::Val(V::Bool(x))) => results.push(Some(x)),
            Ran::Done(R::Err(..)) => results.push(None),
            o => return fail(format!("`{src}` with {vars:?}: {}", o.show())),
        }
    }
    let ctx = format!("a={:?} b={:?} ({})", c.a, c.b, ["variables", "literals", "variable and literal", "literal and variable"][c.form as usize % 4]);
    // program level agrees with trait level
    if results[0] != Some(direct_eq) || results[1] != Some(!direct_eq) {
        return fail(format!("{ctx}: `a == b` gives {:?} and `a != b` gives {:?}; Value::eq gives {direct_eq}", results[0], results[1]));
    }
    let want: [Option<bool>; 4] = match direct_cmp {
        Some(o) => [Some(o == Ordering::Less), Some(o != Ordering::Greater), Some(o == Ordering::Greater), Some(o != Ordering::Less)],
        None => [None; 4],
    };
    for k in 0..4 {
        if results[2 + k] != want[k] {
            return fail(format!("{ctx}: `a {} b` gives {:?} (None = error) but partial_cmp(a, b) = {direct_cmp:?}", RELS[2 + k], results[2 + k]));
        }
    }
    // and with the specification
    if let Some(m) = model_eq(&c.a, &c.b) {
        if results[0] != Some(m) {
            return fail(format!("{ctx}: `a == b` gives {:?}, the values denoted are {}", results[0], if m { "equal" } else { "different" }));
        }
    }
    match model_cmp(&c.a, &c.b) {
        Ord3::Is(o) => {
            let exp = [Some(o == Ordering::Less), Some(o != Ordering::Greater), Some(o == Ordering::Greater), Some(o != Ordering::Less)];
            if results[2..] != exp {
                return fail(format!("{ctx}: <, <=, >, >= give {:?}; the values denoted compare as {o:?}", &results[2..]));
            }
        }
        Ord3::Unordered => {
            if results[2..].iter().any(|r| r.is_some()) {
                return fail(format!("{ctx}: an ordering relation returned a value ({:?}) for values that are not orderable", &results[2..]));
            }
        }
        Ord3::Free => {
            // coherence only: <= iff < or ==
            if let [Some(lt), Some(le), Some(gt), Some(ge)] = results[2..] {
                if le != (lt || direct_eq) || ge != (gt || direct_eq) || (lt && gt) {
                    return fail(format!("{ctx}: relations are incoherent: < {lt} <= {le} > {gt} >= {ge} == {direct_eq}"));
                }
            }
        }
    }
    // membership: x in [y] iff x == y ; x in [y, x] is true whenever x == x
    let src = format!("{sa} in [{sb}]");
    match sut::run_src(&src, &vars) {
        Ran::Done(R::Val(V::Bool(x))) => {
            if x != direct_eq {
                return fail(format!("{ctx}: `{src}` gives {x} but a == b is {direct_eq}"));
            }
        }
        o => return fail(format!("`{src}` with {vars:?}: {}", o.show())),
    }
    let (nt, cl) = nontrivial_pair(&c.a, &c.b);
    pass_n(nt, vec![cl, if literal { "program-literals" } else { "program-variables" }])
}

#[derive(Clone, Debug, Serialize, Deserialize)]
pub struct MinMax {
    pub items: Vec<V>,
    pub max: bool,
    /// 0: max(a, b, c)   1: max([a, b, c])   2 / 3: the same with the items written as literals
    pub form: u8,
}

pub fn check_minmax(c: &MinMax) -> Outcome {
    // only mutually comparable collections are in the statement
    for (i, a) in c.items.iter().enumerate() {
        for b in &c.items[i + 1..] {
            if !matches!(model_cmp(a, b), Ord3::Is(_)) {
                return Outcome::Skip("not-mutually-comparable");
            }
        }
    }
    let vars: Vec<(String, V)> = c.items.iter().enumerate().map(|(i, v)| (format!("v{i}"), v.clone())).collect();
    let names: Vec<String> = vars.iter().map(|(n, _)| n.clone()).collect();
    let f = if c.max { "max" } else { "min" };
    let lits: Option<Vec<String>> = c.items.iter().map(lit::lit).collect();
    let src = match (c.form, &lits) {
        (0, _) => format!("{f}({})", names.join(", ")),
        (1, _) => format!("{f}([{}])", names.join(", ")),
        (2, Some(l)) => format!("{f}({})", l.join(", ")),
        (3, Some(l)) => format!("{f}([{}])", l.join(", ")),
        _ => return Outcome::Skip("no-literal-form"),
    };
    // with one argument that is itself a list, `max(l)` ranges over l: that call shape is about l's elements, not about l
    if matches!(c.form, 0 | 2) && c.items.len() == 1 && matches!(c.items[0], V::List(_)) {
        return Outcome::Skip("single-list-argument-ranges-over-the-list");
    }
    // a single non-list argument is returned as is; a single-element list yields that element
    let got = match sut::run_src(&src, &vars) {
        Ran::Done(R::Val(v)) => v,
        o => return fail(format!("`{src}` with {vars:?}: {}", o.show())),
    };
    if !c.items.iter().any(|x| same(x, &got)) {
        return fail(format!("`{src}` with {vars:?}: result {got:?} is not one of the arguments"));
    }
    for o in &c.items {
        if let Ord3::Is(ord) = model_cmp(&got, o) {
            let bad = if c.max { ord == Ordering::Less } else { ord == Ordering::Greater };
            if bad {
                return fail(format!("`{src}` with {vars:?}: result {got:?} does not bound {o:?}"));
            }
        }
    }
    let mixed = c.items.iter().any(|x| x.kind() != c.items[0].kind());
    pass_n(c.items.len() >= 2, vec![if mixed { "minmax-mixed-numeric-types" } else { "minmax-same-type" }])
}

pub fn run(r: &mut Runner) {
    r.rule = "cases: all ordered pairs and all ordered triples of a boundary set (i64/u64 extremes, +-2^53 and neighbours, +-2^63 and 2^64 as doubles with their neighbours, NaN, +-inf, +-0.0, strings incl. U+FFFF vs U+10000, \
              bools, null, bytes, small lists and maps, durations, timestamps at equal instants under different offsets) through Value::eq / Value::partial_cmp directly (exhaustive); all pairs through programs \
              `a OP b` for the six relations and `a in [b]`, as variables and as literals (exhaustive); min / max over all comparable 2-, 3- and 4-element collections in both call forms; random values. \
              Oracle: exact reference comparison (integers in i128 against exactly decomposed doubles) plus the laws checked without the reference: != negates ==, symmetry, exactly one of < == >, <= iff < or ==, \
              a<b iff b>a, transitivity of < / <= / == over triples, program level = trait level. Non-trivial: operands of different numeric types at or beyond 2^53, equal-by-value pairs of different types, NaN / +-0.0 / +-inf, compound values, ordered chains through different kinds; distinct by ordered pair / triple."
        .into();
    r.assumptions = vec!["whether bool, null, bytes, lists and maps are orderable at all is not asserted (only coherence where an order is defined)".into(), "equality of maps whose keys differ only in int/uint type is not asserted".into()];
    let bs = bset();
    let n = bs.len() as u64;
    r.extra.insert("boundary_values".into(), serde_json::json!(n));
    {
        let b = bs.clone();
        r.sweep_fn("direct-pairs", n * n, move |i| Pair { a: b[(i / n) as usize].clone(), b: b[(i % n) as usize].clone() }, check_direct_pair);
    }
    {
        // triples: convert the set once
        let b = bs.clone();
        let cels: Vec<Option<Value>> = bs.iter().map(to_cel).collect();
        r.sweep_fn(
            "direct-triples",
            n * n * n,
            move |i| Triple { a: b[(i / n / n) as usize].clone(), b: b[((i / n) % n) as usize].clone(), c: b[(i % n) as usize].clone() },
            |t| {
                // look the pre-built values up by identity of position is not possible after serialisation; rebuild only on replay
                let find = |v: &V| bs.iter().position(|x| same(x, v)).and_then(|i| cels[i].clone()).or_else(|| to_cel(v));
                match (find(&t.a), find(&t.b), find(&t.c)) {
                    (Some(a), Some(b), Some(c)) => triple_laws(&a, &b, &c, t),
                    _ => Outcome::Skip("not-representable"),
                }
            },
        );
    }
    {
        let b = bs.clone();
        r.sweep_fn("program-pairs", n * n * 4, move |i| ProgPair { a: b[(i / 4 / n) as usize].clone(), b: b[((i / 4) % n) as usize].clone(), form: (i % 4) as u8 }, check_program_pair);
    }
    {
        let ordered: Vec<V> = bs.iter().filter(|v| is_num(v) && !matches!(v, V::Float(f) if f.0.is_nan())).cloned().collect();
        let strs: Vec<V> = bs.iter().filter(|v| matches!(v, V::Str(_))).cloned().collect();
        let mut cases = vec![];
        for mx in [false, true] {
            for form in 0..2u8 {
                for a in &ordered {
                    cases.push(MinMax { items: vec![a.clone()], max: mx, form: 1 });
                    for b in &ordered {
                        cases.push(MinMax { items: vec![a.clone(), b.clone()], max: mx, form });
                    }
                }
                let small: Vec<&V> = ordered.iter().step_by(2).collect();
                for a in &small {
                    for b in &small {
                        for c in &small {
                            cases.push(MinMax { items: vec![(*a).clone(), (*b).clone(), (*c).clone()], max: mx, form });
                        }
                    }
                }
                let tiny: Vec<&V> = ordered.iter().step_by(4).collect();
                for a in &tiny {
                    for b in &tiny {
                        for c in &tiny {
                            for d in &tiny {
                                cases.push(MinMax { items: vec![(*a).clone(), (*b).clone(), (*c).clone(), (*d).clone()], max: mx, form });
                            }
                        }
                    }
                }
                for a in &strs {
                    for b in &strs {
                        cases.push(MinMax { items: vec![a.clone(), b.clone()], max: mx, form });
                    }
                }
            }
            // the items written as literals; a collection whose only element is itself a list
            for a in &ordered {
                for b in &ordered {
                    for form in 2..4u8 {
                        cases.push(MinMax { items: vec![a.clone(), b.clone()], max: mx, form });
                    }
                }
            }
            for inner in [vec![V::Int(3), V::Int(1), V::Int(2)], vec![], vec![V::Int(1), V::s("a")], vec![V::List(vec![V::Int(1)])]] {
                for form in [1u8, 3] {
                    cases.push(MinMax { items: vec![V::List(inner.clone())], max: mx, form });
                }
            }
        }
        r.sweep("min-max-comparable-collections", cases, check_minmax);
    }
    {
        let mut cases: Vec<Alias> = bs.iter().map(|v| Alias { v: v.clone() }).collect();
        let nan = V::f(f64::NAN);
        for v in [
            V::List(vec![nan.clone()]),
            V::List(vec![V::Int(1), nan.clone()]),
            V::List(vec![V::List(vec![nan.clone()])]),
            V::Map(vec![(V::s("a"), nan.clone())]),
            V::Map(vec![(V::Int(1), V::List(vec![nan.clone()]))]),
            V::List(vec![V::Map(vec![(V::s("a"), nan.clone())])]),
            V::List(vec![V::f(0.0), V::f(-0.0)]),
        ] {
            cases.push(Alias { v });
        }
        r.sweep("values-against-their-own-alias", cases, check_alias);
    }
    let k = r.tier.n(20_000, 1_000_000);
    let o = ValOpts { funcs: false, time: true, nonfinite: true, invalid_utf8_bytes: true };
    r.random("random-direct-pairs", 120, k, |u: &mut Chooser| gen_related_pair(u, o), check_direct_pair);
    r.random(
        "random-direct-triples",
        160,
        k,
        |u: &mut Chooser| {
            let p = gen_related_pair(u, o);
            let c = if u.flip() { near(u, &p.a) } else { gen_value(u, 2, o) };
            Triple { a: p.a, b: p.b, c }
        },
        check_direct_triple,
    );
    r.random(
        "random-program-pairs",
        120,
        k / 4,
        |u: &mut Chooser| {
            let p = gen_related_pair(u, o);
            ProgPair { a: p.a, b: p.b, form: u.below(4) as u8 }
        },
        check_program_pair,
    );
    r.random("random-aliased-values", 60, k / 4, |u: &mut Chooser| Alias { v: gen_value(u, 3, o) }, check_alias);
    r.random(
        "random-min-max",
        60,
        k / 4,
        |u: &mut Chooser| {
            let n = 1 + u.below(5);
            let base = V::Int(crate::gen::gen_i64(u));
            let items = (0..n).map(|_| if u.flip() { near(u, &base) } else { num_value(u) }).collect();
            MinMax { items, max: u.flip(), form: u.below(2) as u8 }
        },
        check_minmax,
    );
    r.expect_class("cross-type-numeric>=2^53", 1000);
    r.expect_class("equal-by-value-different-type", 100);
    r.expect_class("triple-ordered-chain", 1000);
}

fn num_value(u: &mut Chooser) -> V {
    match u.below(3) {
        0 => V::Int(crate::gen::gen_i64(u)),
        1 => V::UInt(crate::gen::gen_u64(u)),
        _ => {
            let f = crate::gen::gen_f64(u);
            V::Float(F(if f.is_nan() { 1.0 } else { f }))
        }
    }
}

/// a value numerically near `v` but possibly of another numeric type (the interesting region for exactness)
fn near(u: &mut Chooser, v: &V) -> V {
    let base: i128 = match v {
        V::Int(i) => *i as i128,
        V::UInt(x) => *x as i128,
        V::Float(f) if f.0.is_finite() && f.0.abs() < 3.0e19 => f.0 as i128,
        _ => return gen_value(u, 2, ValOpts::CORE),
    };
    let x = base + u.range(-2, 2) as i128;
    match u.below(3) {
        0 => V::Int(x.clamp(i64::MIN as i128, i64::MAX as i128) as i64),
        1 => V::UInt(x.clamp(0, u64::MAX as i128) as u64),
        _ => {
            let f = crate::model::num::nearest_f64(x);
            V::Float(F(match u.below(3) {
                0 => f,
                1 => f64::from_bits(f.to_bits().wrapping_add(1)),
                _ => f64::from_bits(f.to_bits().wrapping_sub(1)),
            }))
        }
    }
}

fn gen_related_pair(u: &mut Chooser, o: ValOpts) -> Pair {
    let a = if u.flip() { num_value(u) } else { gen_value(u, 3, o) };
    let b = match u.below(4) {
        0 => a.clone(),
        1 | 2 => near(u, &a),
        _ => gen_value(u, 3, o),
    };
    Pair { a, b }
}
