//! C14 — list, map and string operations agree with one another.

use crate::chooser::Chooser;
use crate::engine::{fail, pass_n, Outcome, Runner};
use crate::gen::{gen_string, gen_value, ValOpts};
use crate::model::eval::{cel_eq, is_num, num_cmp};
use crate::model::{lit, same, ErrClass, V};
use crate::sut::{self, from_cel, to_cel, Ran, R};
use serde::{Deserialize, Serialize};
use std::cmp::Ordering;

pub fn key_alphabet() -> Vec<V> {
    vec![V::Int(0), V::Int(1), V::Int(-1), V::Int(7), V::UInt(2), V::UInt(3), V::Bool(true), V::Bool(false), V::s("a"), V::s("b_1"), V::s(""), V::s("1")]
}
/// alphabet plus the int/uint twin of every numeric key that has one
pub fn query_keys() -> Vec<V> {
    let mut q = key_alphabet();
    q.extend([V::UInt(0), V::UInt(1), V::UInt(7), V::Int(2), V::Int(3), V::Int(5), V::UInt(5), V::s("zz")]);
    q
}
fn value_for(i: usize) -> V {
    // string keys (indices 8..) get "falsy" but non-null values: presence must not depend on the value
    match i {
        8 => return V::Int(0),
        9 => return V::s(""),
        10 => return V::Bool(false),
        11 => return V::List(vec![]),
        _ => {}
    }
    match i % 4 {
        0 => V::Int(100 + i as i64),
        1 => V::s(&format!("v{i}")),
        2 => V::List(vec![V::Int(i as i64)]),
        _ => V::Bool(i % 8 == 3),
    }
}

#[derive(Clone, Debug, Serialize, Deserialize)]
pub struct MapQ {
    /// indices into the key alphabet
    pub keys: Vec<u8>,
    pub query: V,
    /// 0: k in m, 1: m.contains(k), 2: m[k], 3: m.k, 4: has(m.k), 5: contains(m, k)
    pub form: u8,
    pub literal: bool,
}

fn same_key(a: &V, b: &V) -> bool {
    if is_num(a) && is_num(b) {
        num_cmp(a, b).unwrap() == Some(Ordering::Equal)
    } else {
        same(a, b)
    }
}

fn is_identifier(s: &str) -> bool {
    let mut ch = s.chars();
    matches!(ch.next(), Some(c) if c.is_ascii_alphabetic() || c == '_') && ch.all(|c| c.is_ascii_alphanumeric() || c == '_')
}

pub fn check_map(c: &MapQ) -> Outcome {
    let alpha = key_alphabet();
    let entries: Vec<(V, V)> = c.keys.iter().map(|i| (alpha[*i as usize].clone(), value_for(*i as usize))).collect();
    let m = V::Map(entries.clone());
    let present = entries.iter().find(|(k, _)| same_key(k, &c.query));
    let (msrc, ksrc, vars): (String, String, Vec<(String, V)>) = if c.literal {
        (lit::lit(&m).unwrap(), lit::lit(&c.query).unwrap(), vec![])
    } else {
        ("m".into(), "k".into(), vec![("m".into(), m.clone()), ("k".into(), c.query.clone())])
    };
    let field = match &c.query {
        V::Str(s) if is_identifier(s) => Some(s.clone()),
        _ => None,
    };
    let src = match c.form {
        0 => format!("{ksrc} in {msrc}"),
        1 => format!("{msrc}.contains({ksrc})"),
        2 => format!("{msrc}[{ksrc}]"),
        5 => format!("contains({msrc}, {ksrc})"),
        3 | 4 => match &field {
            Some(f) => {
                if c.form == 3 {
                    format!("{msrc}.{f}")
                } else {
                    format!("has({msrc}.{f})")
                }
            }
            None => return Outcome::Skip("query-key-is-not-identifier-like"),
        },
        _ => unreachable!(),
    };
    let got = match sut::run_src(&src, &vars) {
        Ran::Done(r) => r,
        o => return fail(format!("`{src}` {vars:?}: {}", o.show())),
    };
    let ok = match (c.form, present, &got) {
        (0 | 1 | 4 | 5, p, R::Val(V::Bool(b))) => *b == p.is_some(),
        (2, Some((_, v)), R::Val(g)) => same(v, g),
        (2, None, R::Val(V::Null)) => true,
        (3, Some((_, v)), R::Val(g)) => same(v, g),
        // an absent field is an error (which error is not asserted here)
        (3, None, R::Err(..)) => true,
        _ => false,
    };
    if !ok {
        return fail(format!(
            "`{src}` with m = {m:?}, k = {:?}: the key is {} (numerically equal int and uint keys are the same key), observed {}",
            c.query,
            if present.is_some() { "present" } else { "absent" },
            got.show()
        ));
    }
    let twin = present.map(|(k, _)| k.kind() != c.query.kind()).unwrap_or(false);
    let cl = if twin {
        "twin-key-query"
    } else if present.is_none() {
        "absent-key-query"
    } else {
        "present-key-query"
    };
    pass_n(twin || present.is_none(), vec![cl, ["form:in", "form:method-contains", "form:index", "form:select", "form:has", "form:function-contains"][c.form as usize]])
}

/// arbitrary (map, key, form) triples outside the 12-key alphabet
#[derive(Clone, Debug, Serialize, Deserialize)]
pub struct Wrap {
    pub entries: Vec<(V, V)>,
    pub query: V,
    pub form: u8,
    pub literal: bool,
}

pub fn check_wrap(c: &Wrap) -> Outcome {
    let m = V::Map(c.entries.clone());
    let present = c.entries.iter().find(|(k, _)| same_key(k, &c.query));
    let (msrc, ksrc, vars): (String, String, Vec<(String, V)>) = if c.literal { (lit::lit(&m).unwrap(), lit::lit(&c.query).unwrap(), vec![]) } else { ("m".into(), "k".into(), vec![("m".into(), m.clone()), ("k".into(), c.query.clone())]) };
    let field = match &c.query {
        V::Str(s) if is_identifier(s) => Some(s.clone()),
        _ => None,
    };
    let src = match (c.form, &field) {
        (0, _) => format!("{ksrc} in {msrc}"),
        (1, _) => format!("{msrc}.contains({ksrc})"),
        (2, _) => format!("{msrc}[{ksrc}]"),
        (3, Some(f)) => format!("{msrc}.{f}"),
        (4, Some(f)) => format!("has({msrc}.{f})"),
        _ => return Outcome::Skip("query-key-is-not-identifier-like"),
    };
    let got = match sut::run_src(&src, &vars) {
        Ran::Done(r) => r,
        o => return fail(format!("`{src}` {vars:?}: {}", o.show())),
    };
    let ok = match (c.form, present, &got) {
        (0 | 1 | 4, p, R::Val(V::Bool(b))) => *b == p.is_some(),
        (2 | 3, Some((_, v)), R::Val(g)) => same(v, g),
        (2, None, R::Val(V::Null)) => true,
        (3, None, R::Err(..)) => true,
        // no entry of that name: `m.size` may denote the function `size` (entries take precedence over functions, not the reverse)
        (3, None, R::Val(V::Func(..))) => true,
        _ => false,
    };
    if !ok {
        return fail(format!("`{src}` with m = {m:?}, k = {:?}: the key is {}, observed {}", c.query, if present.is_some() { "present" } else { "absent" }, got.show()));
    }
    pass_n(true, vec![if present.is_some() { "present-key-query" } else { "absent-key-query" }])
}

/// int and uint keys whose 64-bit patterns coincide but whose values differ (-1 / u64::MAX, i64::MIN / 2^63)
fn wrap_cases() -> Vec<Wrap> {
    let ks = [V::Int(-1), V::UInt(u64::MAX), V::Int(i64::MIN), V::UInt(1 << 63), V::Int(i64::MAX), V::UInt(i64::MAX as u64), V::Int(0), V::UInt(0)];
    let mut out = vec![];
    for stored in &ks {
        for q in &ks {
            for form in 0..3u8 {
                for literal in [false, true] {
                    out.push(Wrap { entries: vec![(stored.clone(), V::s("v"))], query: q.clone(), form, literal });
                }
            }
        }
    }
    out
}

/// present keys whose values are zero / empty / false: every query form still says "present"
fn falsy_cases() -> Vec<Wrap> {
    let vals = [V::Int(0), V::UInt(0), V::f(0.0), V::Bool(false), V::s(""), V::List(vec![]), V::Map(vec![]), V::Bytes(vec![]), V::dur_ns(0)];
    let mut out = vec![];
    for v in &vals {
        for (k, q) in [(V::s("zero"), V::s("zero")), (V::s("zero"), V::s("other")), (V::Int(5), V::Int(5)), (V::Bool(false), V::Bool(false))] {
            for form in 0..5u8 {
                for literal in [false, true] {
                    if literal && lit::lit(v).is_none() {
                        continue;
                    }
                    out.push(Wrap { entries: vec![(k.clone(), v.clone()), (V::s("pad"), V::Int(1))], query: q.clone(), form, literal });
                }
            }
        }
    }
    out
}

/// string keys spelled like registered functions: an entry of that name is an entry like any other under every query form
fn function_named_cases() -> Vec<Wrap> {
    let mut out = vec![];
    for name in ["size", "contains", "max", "min", "string", "matches", "startsWith", "int", "has", "all", "map"] {
        for present in [true, false] {
            for form in 0..5u8 {
                for literal in [false, true] {
                    let mut entries = vec![(V::s("pad"), V::Int(1))];
                    if present {
                        entries.insert(0, (V::s(name), V::Int(7)));
                    }
                    out.push(Wrap { entries, query: V::s(name), form, literal });
                }
            }
        }
    }
    out
}

/// field paths of two and three levels: each way of asking about the last field agrees, whatever came before it
#[derive(Clone, Debug, Serialize, Deserialize)]
pub struct Path {
    /// fields leading to the map that is asked
    pub prefix: Vec<String>,
    pub last: String,
    pub literal: bool,
}

fn path_root() -> V {
    let leaf = V::Map(vec![(V::s("b"), V::Int(1)), (V::s("z"), V::Int(0)), (V::s("size"), V::Int(3))]);
    let mid = V::Map(vec![(V::s("a"), leaf.clone()), (V::s("e"), V::Map(vec![])), (V::s("b"), V::Int(5))]);
    V::Map(vec![(V::s("a"), leaf), (V::s("m"), mid), (V::s("k"), V::s("v"))])
}

pub fn check_path(c: &Path) -> Outcome {
    let root = path_root();
    // the map that is asked, by following the prefix in the model
    let mut cur = root.clone();
    for f in &c.prefix {
        let V::Map(es) = &cur else { return Outcome::Skip("prefix-leaves-the-maps") };
        match es.iter().find(|(k, _)| matches!(k, V::Str(s) if s == f)) {
            Some((_, v)) => cur = v.clone(),
            None => return Outcome::Skip("prefix-field-absent"),
        }
    }
    let V::Map(es) = &cur else { return Outcome::Skip("prefix-does-not-end-in-a-map") };
    let present = es.iter().find(|(k, _)| matches!(k, V::Str(s) if *s == c.last));
    let (rs, vars) = if c.literal { (lit::lit(&root).unwrap(), vec![]) } else { ("m".to_string(), vec![("m".to_string(), root.clone())]) };
    let path = c.prefix.iter().map(|f| format!(".{f}")).collect::<String>();
    let last = &c.last;
    let forms = [
        (format!("has({rs}{path}.{last})"), 0),
        (format!("{} in {rs}{path}", lit::str_lit(last)), 0),
        (format!("{rs}{path}.contains({})", lit::str_lit(last)), 0),
        (format!("{rs}{path}[{}]", lit::str_lit(last)), 1),
        (format!("{rs}{path}.{last}"), 2),
    ];
    for (src, kind) in forms {
        let got = match sut::run_src(&src, &vars) {
            Ran::Done(r) => r,
            o => return fail(format!("`{src}`: {}", o.show())),
        };
        let ok = match (kind, present, &got) {
            (0, p, R::Val(V::Bool(b))) => *b == p.is_some(),
            (1 | 2, Some((_, v)), R::Val(g)) => same(v, g),
            (1, None, R::Val(V::Null)) => true,
            (2, None, R::Err(..)) => true,
            (2, None, R::Val(V::Func(..))) => true,
            _ => false,
        };
        if !ok {
            return fail(format!("`{src}` with m = {root:?}: the field {last:?} of m{path} is {}, observed {}", if present.is_some() { "present" } else { "absent" }, got.show()));
        }
    }
    pass_n(true, vec![if present.is_some() { "nested-field-present" } else { "nested-field-absent" }])
}

#[derive(Clone, Debug, Serialize, Deserialize)]
pub struct MapLit {
    pub keys: Vec<u8>,
}

/// a map literal with pairwise distinct keys contains exactly the entries written
pub fn check_map_literal(c: &MapLit) -> Outcome {
    let alpha = key_alphabet();
    let entries: Vec<(V, V)> = c.keys.iter().map(|i| (alpha[*i as usize].clone(), value_for(*i as usize))).collect();
    let m = V::Map(entries.clone());
    let src = lit::lit(&m).unwrap();
    match sut::run_src(&src, &[]) {
        Ran::Done(R::Val(g)) => {
            if !same(&m, &g) {
                return fail(format!("map literal `{src}` evaluates to {g:?}"));
            }
        }
        o => return fail(format!("map literal `{src}`: {}", o.show())),
    }
    match sut::run_src(&format!("size({src})"), &[]) {
        Ran::Done(R::Val(V::Int(n))) if n as usize == entries.len() => {}
        o => return fail(format!("size of map literal `{src}` should be {}: {}", entries.len(), o.show())),
    }
    pass_n(entries.len() >= 2, vec!["map-literal-exact-entries"])
}

#[derive(Clone, Debug, Serialize, Deserialize)]
pub struct ListQ {
    pub list: Vec<V>,
    pub index: i64,
    pub literal: bool,
}

pub fn check_list_index(c: &ListQ) -> Outcome {
    let l = V::List(c.list.clone());
    let (src, vars) = if c.literal { (format!("{}[{}]", lit::lit(&l).unwrap(), lit::lit(&V::Int(c.index)).unwrap()), vec![]) } else { ("l[i]".to_string(), vec![("l".to_string(), l.clone()), ("i".to_string(), V::Int(c.index))]) };
    let exp = if c.index >= 0 && (c.index as u64) < c.list.len() as u64 { c.list[c.index as usize].clone() } else { V::Null };
    match sut::run_src(&src, &vars) {
        Ran::Done(R::Val(g)) if same(&g, &exp) => pass_n(c.index < 0 || c.index as u64 >= c.list.len() as u64 || c.index as usize + 1 == c.list.len() || c.index == 0, vec![if matches!(exp, V::Null) && !(c.index >= 0 && (c.index as usize) < c.list.len()) { "index-out-of-range" } else { "index-in-range" }]),
        o => fail(format!("`{src}` {vars:?}: expected {exp:?}, observed {}", o.show())),
    }
}

#[derive(Clone, Debug, Serialize, Deserialize)]
pub struct ListIn {
    pub list: Vec<V>,
    pub x: V,
    pub literal: bool,
}

pub fn check_list_in(c: &ListIn) -> Outcome {
    let l = V::List(c.list.clone());
    let exp = c.list.iter().any(|e| cel_eq(e, &c.x).unwrap_or(false));
    let (ls, xs, vars) = if c.literal { (lit::lit(&l).unwrap(), lit::lit(&c.x).unwrap(), vec![]) } else { ("l".to_string(), "x".to_string(), vec![("l".to_string(), l.clone()), ("x".to_string(), c.x.clone())]) };
    for src in [format!("{xs} in {ls}"), format!("{ls}.contains({xs})")] {
        match sut::run_src(&src, &vars) {
            Ran::Done(R::Val(V::Bool(b))) if b == exp => {}
            o => return fail(format!("`{src}` {vars:?}: some element equals x is {exp}, observed {}", o.show())),
        }
    }
    pass_n(true, vec![if exp { "in-list-true" } else { "in-list-false" }])
}

/// `x in l` where the element *is* x (the same shared value on both sides): membership is still "some element equals x",
/// and a collection holding NaN does not equal itself
pub fn check_alias_in(x: &V) -> Outcome {
    let vars = vec![("x".to_string(), x.clone())];
    let exp = cel_eq(x, x).unwrap_or(false);
    for src in ["x in [x]", "x in [0, x]", "[x].contains(x)", "[x] in [[x]]", "[[x]].contains([x])", "x in [x, x]"] {
        match sut::run_src(src, &vars) {
            Ran::Done(R::Val(V::Bool(b))) if b == exp => {}
            o => return fail(format!("`{src}` with x = {x:?}: x == x is {exp}, so membership must be {exp}; observed {}", o.show())),
        }
    }
    pass_n(!exp, vec![if exp { "alias-in-true" } else { "alias-in-false" }])
}

#[derive(Clone, Debug, Serialize, Deserialize)]
pub struct Law {
    pub a: V,
    pub b: V,
    /// spell the operands as literals inside the program instead of passing them as variables
    #[serde(default)]
    pub literal: bool,
}

fn expect_true(src: &str, vars: &[(String, V)]) -> Result<(), String> {
    match sut::run_src(src, vars) {
        Ran::Done(R::Val(V::Bool(true))) => Ok(()),
        o => Err(format!("`{src}` with {}: expected true, observed {}", sut::trunc(&format!("{vars:?}"), 500), o.show())),
    }
}

pub fn check_law(c: &Law) -> Outcome {
    let vars = vec![("a".to_string(), c.a.clone()), ("b".to_string(), c.b.clone())];
    // operand spellings: the variables, or (when asked for and possible) the values written out as literals
    let (a, b) = match (c.literal, lit::lit(&c.a), lit::lit(&c.b)) {
        (true, Some(x), Some(y)) => (x, y),
        _ => ("a".to_string(), "b".to_string()),
    };
    let run = || -> Result<&'static str, String> {
        expect_true(&format!("size({a} + {b}) == size({a}) + size({b})"), &vars)?;
        expect_true(&format!("({a} + {b}).size() == {a}.size() + {b}.size()"), &vars)?;
        // size of the literal and of the equal variable agree (whatever unit size counts in)
        expect_true(&format!("size({a}) == size(a) && {b}.size() == b.size() && size({a} + b) == size(a + {b})"), &vars)?;
        match (&c.a, &c.b) {
            (V::List(xa), V::List(xb)) => {
                // element order and operands intact, checked on the values themselves
                let exp: Vec<V> = xa.iter().chain(xb.iter()).cloned().collect();
                match sut::run_src(&format!("[{a} + {b}, {a}, {b}]"), &vars) {
                    Ran::Done(R::Val(V::List(parts))) if parts.len() == 3 => {
                        if !same(&parts[0], &V::List(exp.clone())) {
                            return Err(format!("a + b with a={:?} b={:?} gives {:?}", c.a, c.b, parts[0]));
                        }
                        if !same(&parts[1], &c.a) || !same(&parts[2], &c.b) {
                            return Err(format!("after evaluating [a + b, a, b] the operands read back as {:?} and {:?} (originals {:?}, {:?})", parts[1], parts[2], c.a, c.b));
                        }
                    }
                    o => return Err(format!("`[a + b, a, b]`: {}", o.show())),
                }
                for i in 0..exp.len() {
                    let src = format!("({a} + {b})[{i}]");
                    match sut::run_src(&src, &vars) {
                        Ran::Done(R::Val(g)) if same(&g, &exp[i]) => {}
                        o => return Err(format!("`{src}` a={:?} b={:?}: expected {:?}, observed {}", c.a, c.b, exp[i], o.show())),
                    }
                }
                // context values are untouched by concatenation (same context, executed after a + b)
                let ctx = sut::ctx_with(&vars);
                let p = cel_interpreter::Program::compile("a + b + a").map_err(|e| e.to_string())?;
                let _ = p.execute(&ctx);
                let _ = p.execute(&ctx);
                for (n, v) in &vars {
                    let after = ctx.get_variable(n.as_str()).map(|x| from_cel(&x));
                    if !matches!(&after, Ok(x) if same(x, v)) {
                        return Err(format!("after executing `a + b + a` twice the context variable {n} reads {after:?}, was {v:?}"));
                    }
                }
                Ok("law:list")
            }
            (V::Str(sa), V::Str(sb)) => {
                expect_true(&format!("({a} + {b}).startsWith({a})"), &vars)?;
                expect_true(&format!("({a} + {b}).endsWith({b})"), &vars)?;
                expect_true(&format!("({a} + {b}).contains({a})"), &vars)?;
                expect_true(&format!("({a} + {b}).contains({b})"), &vars)?;
                expect_true(&format!("startsWith({a} + {b}, {a}) && endsWith({a} + {b}, {b})"), &vars)?;
                match sut::run_src(&format!("[{a} + {b}, {a}, {b}]"), &vars) {
                    Ran::Done(R::Val(V::List(parts))) if parts.len() == 3 => {
                        if !same(&parts[0], &V::Str(format!("{sa}{sb}"))) || !same(&parts[1], &c.a) || !same(&parts[2], &c.b) {
                            return Err(format!("[a + b, a, b] with a={:?} b={:?} gives {:?}", c.a, c.b, parts));
                        }
                    }
                    o => return Err(format!("`[a + b, a, b]`: {}", o.show())),
                }
                Ok("law:string")
            }
            _ => Ok("law:other"),
        }
    };
    match run() {
        Ok(cl) => {
            let nonascii = matches!((&c.a, &c.b), (V::Str(x), V::Str(y)) if !x.is_ascii() || !y.is_ascii());
            let nonempty = match (&c.a, &c.b) {
                (V::Str(x), V::Str(y)) => !x.is_empty() && !y.is_empty(),
                (V::List(x), V::List(y)) => !x.is_empty() && !y.is_empty(),
                _ => false,
            };
            pass_n(nonempty && (nonascii || cl == "law:list"), vec![cl, if a == "a" { "operands:variables" } else { "operands:literals" }])
        }
        Err(e) => fail(e),
    }
}

fn subsets_up_to_4(n: usize) -> Vec<Vec<u8>> {
    let mut out = vec![vec![]];
    for a in 0..n {
        out.push(vec![a as u8]);
        for b in a + 1..n {
            out.push(vec![a as u8, b as u8]);
            for c in b + 1..n {
                out.push(vec![a as u8, b as u8, c as u8]);
                for d in c + 1..n {
                    out.push(vec![a as u8, b as u8, c as u8, d as u8]);
                }
            }
        }
    }
    out
}

pub fn run(r: &mut Runner) {
    r.rule = "cases: every map with <= 4 pairwise distinct keys over a 12-key alphabet (int, uint, bool, identifier-like strings that are not function names, \"\" and \"1\") with distinct non-null values, as literal and as context variable, \
              queried with every alphabet key, the int/uint twin of every numeric key and absent keys through `k in m`, m.contains(k), contains(m, k), m[k], m.k and has(m.k) (exhaustive); every map literal evaluates to exactly its entries; every list of length <= 5 over a 3-value alphabet \
              with every index in -2..len+1 and the i64 extremes, and `x in l` / l.contains(x) for every alphabet value (exhaustive); random lists and strings for size additivity, element order, operand integrity and startsWith / endsWith / contains. \
              Oracle: presence = membership under int/uint identification, all query forms agree with it; index = element or null; in = some element equals. Non-trivial: a twin-key query, an absent-key query, a boundary index, or a law instance with non-empty (non-ASCII) operands; distinct by (collection, key / index, form)."
        .into();
    let subsets = subsets_up_to_4(key_alphabet().len());
    let q = query_keys();
    let (ns, nq) = (subsets.len() as u64, q.len() as u64);
    {
        let (subsets, q) = (subsets.clone(), q.clone());
        r.sweep_fn(
            "maps-x-keys-x-forms",
            ns * nq * 6 * 2,
            move |i| {
                let literal = i % 2 == 1;
                let form = ((i / 2) % 6) as u8;
                let query = q[((i / 12) % nq) as usize].clone();
                let keys = subsets[(i / 12 / nq) as usize].clone();
                MapQ { keys, query, form, literal }
            },
            check_map,
        );
    }
    r.sweep("map-literals", subsets.iter().map(|k| MapLit { keys: k.clone() }).collect(), check_map_literal);
    r.sweep("wrapping-int-uint-keys", wrap_cases(), check_wrap);
    r.sweep("falsy-values-under-every-query-form", falsy_cases(), check_wrap);
    r.sweep("function-named-string-keys", function_named_cases(), check_wrap);
    {
        let mut cases = vec![];
        for prefix in [vec!["a"], vec!["m"], vec!["m", "a"], vec!["m", "e"]] {
            for last in ["b", "z", "q", "a", "e", "size"] {
                for literal in [false, true] {
                    cases.push(Path { prefix: prefix.iter().map(|s| s.to_string()).collect(), last: last.to_string(), literal });
                }
            }
        }
        r.sweep("nested-field-presence", cases, check_path);
    }
    {
        let alpha = [V::Int(1), V::Int(2), V::s("a")];
        let mut cases = vec![];
        let mut cases_in = vec![];
        let mut lists: Vec<Vec<V>> = vec![vec![]];
        let mut frontier: Vec<Vec<V>> = vec![vec![]];
        for _ in 0..5 {
            let mut next = vec![];
            for l in &frontier {
                for a in &alpha {
                    let mut l2 = l.clone();
                    l2.push(a.clone());
                    next.push(l2);
                }
            }
            lists.extend(next.iter().cloned());
            frontier = next;
        }
        for l in &lists {
            let len = l.len() as i64;
            for idx in (-2..=len + 1).chain([i64::MIN, i64::MAX, i64::MAX - 1, 1 << 32, -(1 << 32)]) {
                for literal in [false, true] {
                    cases.push(ListQ { list: l.clone(), index: idx, literal });
                }
            }
            for x in alpha.iter().chain([V::UInt(1), V::f(2.0), V::s("b"), V::Null].iter()) {
                cases_in.push(ListIn { list: l.clone(), x: x.clone(), literal: l.len() % 2 == 0 });
            }
        }
        r.sweep("lists-x-indices", cases, check_list_index);
        r.sweep("lists-x-membership", cases_in, check_list_in);
    }
    {
        let nan = V::f(f64::NAN);
        let xs = vec![
            V::Int(1),
            V::s("a"),
            nan.clone(),
            V::List(vec![]),
            V::List(vec![V::Int(1)]),
            V::List(vec![nan.clone()]),
            V::List(vec![V::Int(1), nan.clone()]),
            V::List(vec![V::List(vec![nan.clone()])]),
            V::Map(vec![(V::s("k"), nan.clone())]),
            V::Map(vec![(V::s("k"), V::Int(1))]),
            V::Map(vec![(V::Int(1), V::List(vec![nan.clone()]))]),
            V::Bytes(vec![1, 2]),
            V::f(0.0),
        ];
        r.sweep("membership-of-aliased-values", xs, check_alias_in);
    }
    let n = r.tier.n(6_000, 300_000);
    r.random(
        "random-concatenation-laws",
        120,
        n,
        |u: &mut Chooser| {
            if u.flip() {
                Law { a: V::Str(gen_string(u)), b: V::Str(gen_string(u)), literal: u.flip() }
            } else {
                let o = ValOpts::CORE;
                let la = (0..u.below(5)).map(|_| gen_value(u, 2, o)).collect();
                let lb = (0..u.below(5)).map(|_| gen_value(u, 2, o)).collect();
                Law { a: V::List(la), b: V::List(lb), literal: u.chance(1, 3) }
            }
        },
        check_law,
    );
    r.random(
        "random-maps-and-keys",
        60,
        n,
        |u: &mut Chooser| {
            let alpha = key_alphabet();
            let mut keys: Vec<u8> = vec![];
            for _ in 0..u.below(7) {
                let k = u.below(alpha.len()) as u8;
                if !keys.contains(&k) {
                    keys.push(k);
                }
            }
            MapQ { keys, query: u.pick(&query_keys()).clone(), form: u.below(6) as u8, literal: u.flip() }
        },
        check_map,
    );
    let _ = to_cel(&V::Null);
    r.expect_class("twin-key-query", 1000);
    r.expect_class("absent-key-query", 1000);
    r.expect_class("index-out-of-range", 500);
}
