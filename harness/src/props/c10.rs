//! C10 — comprehension macros compute their defining folds.

use crate::chooser::Chooser;
use crate::engine::{fail, pass_n, Outcome, Runner};
use crate::gen::{gen_key, gen_string};
use crate::model::eval::{eval, show_key, St, Stop, Table};
use crate::model::expr::{b, Mac, Op, E};
use crate::model::{same, V};
use crate::props::c03::agree;
use crate::sut::{self, Ran};
use serde::{Deserialize, Serialize};

pub const MACS: [(Mac, usize); 7] = [(Mac::All, 1), (Mac::Exists, 1), (Mac::ExistsOne, 1), (Mac::ExistsOneCamel, 1), (Mac::Map, 1), (Mac::Map, 2), (Mac::Filter, 1)];

#[derive(Clone, Debug, Serialize, Deserialize)]
pub struct Case {
    pub mac: Mac,
    /// number of body arguments (2 = map with filter)
    pub arity: usize,
    pub range: V,
    /// body selector
    pub body: u8,
    pub table: Table,
    /// optional inner range for two-deep nesting
    pub inner: Option<(Mac, V)>,
}

fn x() -> E {
    E::var("x")
}
fn int(i: i64) -> E {
    E::Lit(V::Int(i))
}

/// predicate bodies over the iteration variable x
fn pred(k: u8) -> E {
    match k {
        0 => E::bin(Op::Gt, x(), int(1)),
        1 => E::bin(Op::Eq, x(), int(2)),
        2 => E::bin(Op::And, E::bin(Op::Lt, x(), int(3)), E::bin(Op::Ne, x(), int(0))),
        3 => E::Lit(V::Bool(true)),
        4 => E::Lit(V::Bool(false)),
        // errs on x == 0
        5 => E::bin(Op::Gt, E::bin(Op::Div, int(1), x()), int(0)),
        // errs on x >= 2
        6 => E::bin(Op::Or, E::bin(Op::Lt, x(), int(2)), E::bin(Op::Gt, E::bin(Op::Div, int(1), int(0)), int(0))),
        // errs on x == 3 through overflow
        7 => E::bin(Op::Gt, E::bin(Op::Add, int(i64::MAX - 2), x()), int(0)),
        // table-driven, logging
        _ => E::call("q", vec![x()]),
    }
}
pub const N_PRED: u8 = 9;

/// transformer bodies
fn xform(k: u8) -> E {
    match k % 4 {
        0 => E::bin(Op::Mul, x(), int(2)),
        1 => E::List(vec![x(), x()]),
        2 => E::bin(Op::Div, int(6), x()),
        _ => E::call("t", vec![int(9), x()]),
    }
}

pub fn build(c: &Case) -> E {
    let range = E::var("xs");
    let body: Vec<E> = match (c.mac, c.arity, &c.inner) {
        (_, _, Some((im, _))) => {
            // two-deep: inner macro over ys with q2(x, y)
            let inner_body = E::call("q2", vec![x(), E::var("y")]);
            let inner = E::Macro(*im, b(E::var("ys")), "y".into(), vec![inner_body]);
            match (c.mac, c.arity) {
                (Mac::Map, 2) => vec![E::call("q", vec![x()]), inner],
                _ => vec![inner],
            }
        }
        // over a map the body has to log the key so that the visit order can be read off
        (Mac::Map, 1, None) if matches!(c.range, V::Map(_)) => vec![E::call("q", vec![x()])],
        (Mac::Map, 1, None) => vec![xform(c.body)],
        (Mac::Map, _, None) => vec![pred(c.body % N_PRED), xform(c.body / N_PRED)],
        _ => vec![pred(c.body % N_PRED)],
    };
    E::Macro(c.mac, b(range), "x".into(), body)
}

fn reorder_map_by_log(range: &V, log: &[String], prefix: &str) -> Result<V, String> {
    let V::Map(es) = range else { return Ok(range.clone()) };
    let mut order: Vec<usize> = vec![];
    for l in log {
        if let Some(k) = l.strip_prefix(prefix) {
            match es.iter().position(|(key, _)| show_key(key) == k) {
                Some(i) => {
                    if order.contains(&i) {
                        return Err(format!("key {k} visited twice"));
                    }
                    order.push(i);
                }
                None => return Err(format!("visited {k}, which is not a key of the range")),
            }
        }
    }
    let mut out: Vec<(V, V)> = order.iter().map(|i| es[*i].clone()).collect();
    for (i, e) in es.iter().enumerate() {
        if !order.contains(&i) {
            out.push(e.clone());
        }
    }
    Ok(V::Map(out))
}

pub fn check(c: &Case) -> Outcome {
    let e = build(c);
    let src = e.render();
    let mut vars = vec![("xs".to_string(), c.range.clone())];
    if let Some((_, ys)) = &c.inner {
        vars.push(("ys".to_string(), ys.clone()));
    }
    let (ran, log) = sut::run_logged(&src, &vars, &c.table);
    let got = match ran {
        Ran::Done(r) => r,
        o => return fail(format!("`{src}`: {}", o.show())),
    };
    // ranging over a map: the visit order is whatever the implementation chose; read it off the log
    let is_map = matches!(c.range, V::Map(_));
    let mut mvars = vars.clone();
    if is_map {
        // keys whose text collides would make the log ambiguous; the generator avoids them
        match reorder_map_by_log(&c.range, &log, "q:") {
            Ok(m) => mvars[0].1 = m,
            Err(why) => return fail(format!("`{src}` over map {:?}: {why}; log {:?}", c.range, log)),
        }
    }
    let variants = crate::props::c03::model_variants(&e, &mvars, &c.table, true);
    if let Err(Stop::Unsupported(w)) = &variants[0].0 {
        return Outcome::Skip(w);
    }
    // exists_one: whether elements after the second hit are visited is not asserted; either variant is accepted
    let k = variants.iter().position(|(m, st)| st.log == log && agree(m, &got)).unwrap_or(0);
    let (model, st) = (&variants[k].0, &variants[k].1);
    if log != st.log {
        return fail(format!("`{src}` xs={:?} table={:?}: elements the fold must visit {:?}, elements visited {:?}; model {:?}, interpreter {}", c.range, c.table, st.log, log, model, got.show()));
    }
    if !agree(model, &got) {
        return fail(format!("`{src}` xs={:?} table={:?}: defining fold gives {:?}, interpreter gives {}", c.range, c.table, model, got.show()));
    }
    // bodies that call no function at all: the same compiled program gives the same fold in a context that has the
    // variables but no function registry entries (Context::empty())
    if !is_map && !e.any(&|x| matches!(x, E::Call(..))) {
        match sut::run_then_on_empty(&src, &vars) {
            Ran::Done(g2) if agree(model, &g2) => {}
            o => return fail(format!("`{src}` xs={:?}: in a context built from Context::empty() (same variables, no functions) the defining fold still gives {:?}, interpreter gives {}", c.range, model, o.show())),
        }
    }
    let len = match &c.range {
        V::List(xs) => xs.len(),
        V::Map(es) => es.len(),
        _ => 0,
    } as u64;
    let early = st.macro_iterations < len && c.inner.is_none();
    let mut cl = vec![c.mac.name()];
    if early && model.is_ok() {
        cl.push("early-exit");
    }
    if model.is_err() {
        cl.push(if early { "error-before-last-element" } else { "error-at-last-element" });
    }
    if is_map {
        cl.push("map-range");
    }
    if c.inner.is_some() {
        cl.push("nested-two-deep");
    }
    if len == 0 {
        cl.push("empty-range");
    }
    let nt = (len >= 2 && (early || model.is_err())) || is_map || c.inner.is_some() || (len >= 2 && c.body % N_PRED >= 5);
    pass_n(nt, cl)
}

/// one macro applied to the result of another (`xs.filter(x, p).map(x, f)` ...): the first fold runs to completion - all
/// its body evaluations, in order, and its error if any - before the second one starts
#[derive(Clone, Debug, Serialize, Deserialize)]
pub struct Pipe {
    pub range: V,
    /// first stage: filter (pred k) or map (xform k) or three-argument map (pred, xform)
    pub first: (Mac, u8, u8),
    pub second: (Mac, u8, u8),
    /// the second stage reuses the iteration variable name of the first
    pub same_var: bool,
    pub table: Table,
}

fn stage(m: Mac, range: E, var: &str, p: u8, f: u8, three: bool) -> E {
    let rename = |e: E| -> E {
        if var == "x" {
            e
        } else {
            e.map_vars(&|n| if n == "x" { var.to_string() } else { n.to_string() })
        }
    };
    let body = match (m, three) {
        (Mac::Map, true) => vec![rename(pred(p)), rename(xform(f))],
        (Mac::Map, false) => vec![rename(xform(f))],
        _ => vec![rename(pred(p))],
    };
    E::Macro(m, b(range), var.to_string(), body)
}

pub fn check_pipe(c: &Pipe) -> Outcome {
    let s1 = stage(c.first.0, E::var("xs"), "x", c.first.1, c.first.2, c.first.0 == Mac::Map && c.first.1 != 255);
    let var2 = if c.same_var { "x" } else { "y" };
    let e = stage(c.second.0, s1, var2, c.second.1, c.second.2, c.second.0 == Mac::Map && c.second.1 != 255);
    let src = e.render();
    let vars = vec![("xs".to_string(), c.range.clone())];
    let (ran, log) = sut::run_logged(&src, &vars, &c.table);
    let got = match ran {
        Ran::Done(r) => r,
        o => return fail(format!("`{src}`: {}", o.show())),
    };
    let variants = crate::props::c03::model_variants(&e, &vars, &c.table, true);
    if let Err(Stop::Unsupported(w)) = &variants[0].0 {
        return Outcome::Skip(w);
    }
    let k = variants.iter().position(|(m, st)| st.log == log && agree(m, &got)).unwrap_or(0);
    let (model, st) = (&variants[k].0, &variants[k].1);
    if log != st.log {
        return fail(format!("`{src}` xs={:?} table={:?}: stage by stage the bodies run as {:?}, observed {:?}; model {:?}, interpreter {}", c.range, c.table, st.log, log, model, got.show()));
    }
    if !agree(model, &got) {
        return fail(format!("`{src}` xs={:?} table={:?}: stage by stage the folds give {:?}, interpreter gives {}", c.range, c.table, model, got.show()));
    }
    pass_n(true, vec!["two-stage-pipeline", if c.same_var { "stages-share-the-variable-name" } else { "stages-use-different-names" }, if model.is_err() { "pipeline-error" } else { "pipeline-value" }])
}

/// ranges over maps with bodies that do not log: the visit order is unknown, so only order-insensitive
/// outcomes are compared (booleans for total predicates; mapped / filtered lists as multisets)
#[derive(Clone, Debug, Serialize, Deserialize)]
pub struct MapCase {
    pub mac: Mac,
    pub arity: usize,
    pub range: V,
    pub body: u8,
    pub literal_range: bool,
}

#[derive(Clone, Debug, Serialize, Deserialize)]
pub struct Hetero {
    pub list: Vec<V>,
    /// a context variable named like the iteration variable
    pub outer: Option<V>,
    pub form: u8,
}

pub fn check_hetero(c: &Hetero) -> Outcome {
    let xs = V::List(c.list.clone());
    let mut vars = vec![("xs".to_string(), xs.clone())];
    if let Some(o) = &c.outer {
        vars.push(("x".to_string(), o.clone()));
    }
    // bodies that hand the element back untouched, so the result shows exactly what the variable denoted
    let (src, e): (&str, E) = match c.form {
        0 => ("xs.map(x, x)", E::Macro(Mac::Map, b(E::var("xs")), "x".into(), vec![x()])),
        1 => ("xs.filter(x, true)", E::Macro(Mac::Filter, b(E::var("xs")), "x".into(), vec![E::Lit(V::Bool(true))])),
        2 => ("xs.map(x, true, [x])", E::Macro(Mac::Map, b(E::var("xs")), "x".into(), vec![E::Lit(V::Bool(true)), E::List(vec![x()])])),
        3 => ("xs.map(x, xs.map(x, x))", E::Macro(Mac::Map, b(E::var("xs")), "x".into(), vec![E::Macro(Mac::Map, b(E::var("xs")), "x".into(), vec![x()])])),
        4 => ("[xs.map(x, x), xs.filter(x, x == x)]", E::List(vec![E::Macro(Mac::Map, b(E::var("xs")), "x".into(), vec![x()]), E::Macro(Mac::Filter, b(E::var("xs")), "x".into(), vec![E::bin(Op::Eq, x(), x())])])),
        // the body hands the *name* of the iteration variable to a host function that looks it up in the calling scope
        8 => ("", E::Macro(Mac::Map, b(E::var("xs")), "x".into(), vec![E::call("peek", vec![E::Lit(V::s("x"))])])),
        9 => ("", E::Macro(Mac::Filter, b(E::var("xs")), "x".into(), vec![E::bin(Op::Eq, E::call("peek", vec![E::Lit(V::s("x"))]), E::call("peek", vec![E::Lit(V::s("x"))]))])),
        10 => ("", E::Macro(Mac::All, b(E::var("xs")), "x".into(), vec![E::bin(Op::Eq, E::List(vec![E::call("peek", vec![E::Lit(V::s("x"))])]), E::List(vec![x()]))])),
        // forms 5-7: an inner macro over a *literal* range (here: the value of `outer`, written out) inside the body
        k => {
            let lit_range = E::Lit(c.outer.clone().unwrap_or(V::List(vec![])));
            let inner = match k {
                5 => E::Macro(Mac::Map, b(lit_range), "y".into(), vec![E::bin(Op::Add, x(), E::var("y"))]),
                6 => E::Macro(Mac::Filter, b(lit_range), "y".into(), vec![E::bin(Op::Gt, E::var("y"), x())]),
                _ => E::Macro(Mac::Exists, b(lit_range), "y".into(), vec![E::bin(Op::Eq, E::var("y"), x())]),
            };
            ("", E::Macro(Mac::Map, b(E::var("xs")), "x".into(), vec![inner]))
        }
    };
    debug_assert!(src.is_empty() || e.render().replace(['(', ')'], "") == src.replace(['(', ')'], ""));
    if (5..=7).contains(&c.form) {
        // `outer` carries the literal range here, it is not a context variable
        vars.truncate(1);
    }
    let src = if src.is_empty() { e.render() } else { src.to_string() };
    let src = src.as_str();
    let variants = crate::props::c03::model_variants(&e, &vars, &vec![], false);
    let model = &variants[0].0;
    if let Err(Stop::Unsupported(w)) = model {
        return Outcome::Skip(w);
    }
    let got = match sut::run_logged(&e.render(), &vars, &vec![]).0 {
        Ran::Done(r) => r,
        o => return fail(format!("`{src}`: {}", o.show())),
    };
    if !agree(model, &got) {
        return fail(format!("`{src}` with xs = {:?}{}: the elements in order are {:?}, interpreter gives {}", c.list, c.outer.as_ref().map(|o| format!(", outer x = {o:?}")).unwrap_or_default(), model, got.show()));
    }
    // afterwards the outer binding (or its absence) is what it was
    pass_n(c.list.len() >= 2 || c.outer.is_some(), vec!["heterogeneous-list"])
}

/// a map *literal* written directly as the receiver of a macro ranges over the same keys as that literal reached indirectly
/// (`[M][0]`, or the value of M bound to a variable) - including literals that spell a key more than once
#[derive(Clone, Debug, Serialize, Deserialize)]
pub struct LitRecv {
    pub map_src: String,
    /// macro call text with K as the iteration variable, e.g. `map(K, K)`
    pub call: String,
    pub nested: bool,
}

pub fn check_literal_receiver(c: &LitRecv) -> Outcome {
    let call = c.call.replace('K', "k");
    let wrap = |recv: &str| if c.nested { format!("[0].map(x, {recv}.{call})") } else { format!("{recv}.{call}") };
    let value = match sut::run_src(&c.map_src, &[]) {
        Ran::Done(crate::sut::R::Val(v @ V::Map(_))) => v,
        Ran::Done(crate::sut::R::Err(..)) | Ran::NoCompile(_) => return Outcome::Skip("map-literal-is-rejected"),
        o => return fail(format!("`{}`: {}", c.map_src, o.show())),
    };
    let direct = sut::run_src(&wrap(&c.map_src), &[]);
    let indexed = sut::run_src(&wrap(&format!("[{}][0]", c.map_src)), &[]);
    let bound = sut::run_src(&wrap("m"), &[("m".to_string(), value.clone())]);
    let eq = |a: &Ran, b: &Ran| -> bool {
        fn same_unordered(a: &V, b: &V) -> bool {
            match (a, b) {
                (V::List(x), V::List(y)) => {
                    if x.len() != y.len() {
                        return false;
                    }
                    let mut used = vec![false; y.len()];
                    x.iter().all(|p| match (0..y.len()).find(|i| !used[*i] && same_unordered(p, &y[*i])) {
                        Some(i) => {
                            used[i] = true;
                            true
                        }
                        None => false,
                    })
                }
                _ => same(a, b),
            }
        }
        match (a, b) {
            (Ran::Done(crate::sut::R::Val(x)), Ran::Done(crate::sut::R::Val(y))) => same_unordered(x, y),
            (Ran::Done(crate::sut::R::Err(..)), Ran::Done(crate::sut::R::Err(..))) => true,
            _ => false,
        }
    };
    if !eq(&direct, &indexed) || !eq(&direct, &bound) {
        return fail(format!(
            "`{}` gives {}, but the same literal reached through an index gives {} and its value ({value:?}) bound to a variable gives {}: the macro does not range over the map the literal denotes",
            wrap(&c.map_src),
            direct.show(),
            indexed.show(),
            bound.show()
        ));
    }
    let n = match &value {
        V::Map(es) => es.len(),
        _ => 0,
    };
    pass_n(true, vec![if c.map_src.matches(':').count() > n { "literal-receiver-with-a-repeated-key" } else { "literal-receiver" }])
}

fn multiset_eq(a: &[V], b: &[V]) -> bool {
    if a.len() != b.len() {
        return false;
    }
    let mut used = vec![false; b.len()];
    a.iter().all(|x| {
        if let Some(i) = (0..b.len()).find(|i| !used[*i] && same(x, &b[*i])) {
            used[i] = true;
            true
        } else {
            false
        }
    })
}

pub fn check_map_unordered(c: &MapCase) -> Outcome {
    // total, pure bodies only (0..=4 of pred(), transformer 0/1 of xform())
    // bodies 0-9: as before; 10-13: equality of the key with a literal of another numeric type (written either way round)
    let pure = |k: u8| -> E {
        match k {
            10 => E::bin(Op::Eq, x(), E::Lit(V::f(2.0))),
            11 => E::bin(Op::Eq, E::Lit(V::UInt(2)), x()),
            12 => E::bin(Op::Eq, x(), E::Lit(V::f(1.0))),
            13 => E::bin(Op::Eq, E::Lit(V::Int(3)), x()),
            k => pred(k % 5),
        }
    };
    let body: Vec<E> = match (c.mac, c.arity) {
        (Mac::Map, 1) => vec![xform(c.body % 2)],
        (Mac::Map, _) => vec![pure(c.body), xform((c.body / 5) % 2)],
        _ => vec![pure(c.body)],
    };
    let (range_e, vars) = if c.literal_range { (E::Lit(c.range.clone()), vec![]) } else { (E::var("xs"), vec![("xs".to_string(), c.range.clone())]) };
    let e = E::Macro(c.mac, b(range_e), "x".into(), body);
    let src = e.render();
    let got = match sut::run_logged(&src, &vars, &vec![]).0 {
        Ran::Done(r) => r,
        o => return fail(format!("`{src}`: {}", o.show())),
    };
    let mut st = St::new(&vars, vec![]);
    st.map_order_known = true; // any order: the comparison below is order-insensitive
    let model = eval(&e, &mut st);
    let ok = match (&model, &got) {
        (Ok(V::List(a)), crate::sut::R::Val(V::List(g))) => multiset_eq(a, g),
        (Ok(v), crate::sut::R::Val(g)) => same(v, g),
        (Err(Stop::Err(_)), crate::sut::R::Err(..)) => true,
        (Err(Stop::Unsupported(w)), _) => return Outcome::Skip(w),
        _ => false,
    };
    if !ok {
        return fail(format!("`{src}` with xs = {:?}: the fold over the keys (in any order) gives {:?}, interpreter gives {}", c.range, model, got.show()));
    }
    pass_n(true, vec![c.mac.name(), "map-range-unordered-comparison"])
}

fn list_of(mut i: u64, len: usize) -> V {
    let mut xs = vec![];
    for _ in 0..len {
        xs.push(V::Int((i % 4) as i64));
        i /= 4;
    }
    V::List(xs)
}

/// all lists of length 0..=max over {0,1,2,3}; index -> list
fn nth_list(mut i: u64, max: usize) -> V {
    for len in 0..=max {
        let n = 4u64.pow(len as u32);
        if i < n {
            return list_of(i, len);
        }
        i -= n;
    }
    V::List(vec![])
}
fn count_lists(max: usize) -> u64 {
    (0..=max).map(|l| 4u64.pow(l as u32)).sum()
}

fn gen_table_for(u: &mut Chooser, keys: &[V], bool_only: bool) -> Table {
    keys.iter()
        .map(|k| {
            let r = match u.below(if bool_only { 3 } else { 4 }) {
                0 => Some(V::Bool(false)),
                1 => Some(V::Bool(true)),
                2 => None,
                _ => Some(V::Int(5)),
            };
            (k.clone(), r)
        })
        .collect()
}

pub fn run(r: &mut Runner) {
    r.rule = "cases: (macro form, range, body, table): all seven forms (all, exists, exists_one, existsOne, map/2, map/3, filter) over every list of length 0-6 from {0,1,2,3} \
              with pure, error-raising and table-driven logging bodies (exhaustive), plus random longer lists, maps with keys of every kind, and two-deep nestings with q2(x, y). \
              Oracle: explicit folds (conjunction / disjunction with stop at the deciding element, exactly-one count, mapped / filtered lists in order, first reached error wins) and \
              the exact visit sequence from the logging body; over maps the visit order is read off the log and must be a duplicate-free sequence of keys. \
              Non-trivial: length >= 2 with early exit or an error, an error-capable body, a map range or a nested macro; distinct by (form, body, range, table)."
        .into();
    let nl = count_lists(6);
    // exhaustive: lists × forms × bodies (pure + erring)
    let nb = (N_PRED - 1) as u64; // without the table-driven body
    r.sweep_fn(
        "lists-x-forms-x-bodies",
        nl * 7 * nb,
        move |i| {
            let (mac, arity) = MACS[(i % 7) as usize];
            let body = ((i / 7) % nb) as u8;
            let list = nth_list(i / 7 / nb, 6);
            // map/3 takes (pred, xform): spread the transformer choice over the list index
            let body = if arity == 2 { body + N_PRED * ((i / 7 / nb) % 4) as u8 } else { body };
            Case { mac, arity, range: list, body, table: vec![], inner: None }
        },
        check,
    );
    // exhaustive: every truth/error table over the alphabet (3^4) × every list of length <= 4 × forms
    let nl4 = count_lists(4);
    r.sweep_fn(
        "tables-x-lists-x-forms",
        81 * nl4 * 7,
        move |i| {
            let (mac, arity) = MACS[(i % 7) as usize];
            let list = nth_list((i / 7) % nl4, 4);
            let mut t = i / 7 / nl4;
            let mut table = vec![];
            for k in 0..4 {
                let r = match t % 3 {
                    0 => Some(V::Bool(false)),
                    1 => Some(V::Bool(true)),
                    _ => None,
                };
                t /= 3;
                table.push((V::Int(k), r));
            }
            Case { mac, arity, range: list, body: N_PRED - 1, table, inner: None }
        },
        check,
    );
    let n = r.tier.n(5_000, 300_000);
    r.random(
        "random-long-lists",
        80,
        n,
        |u| {
            let (mac, arity) = *u.pick(&MACS);
            let len = u.below(40);
            let xs: Vec<V> = (0..len).map(|_| V::Int(u.below(4) as i64)).collect();
            let table = gen_table_for(u, &[V::Int(0), V::Int(1), V::Int(2), V::Int(3)], true);
            let body = if u.flip() { N_PRED - 1 } else { u.below(N_PRED as usize) as u8 } + if arity == 2 { N_PRED * u.below(4) as u8 } else { 0 };
            Case { mac, arity, range: V::List(xs), body, table, inner: None }
        },
        check,
    );
    {
        let maps = ["{'a': 1, 'a': 2}", "{'a': 1, 'b': 2, 'a': 3}", "{1: 0, 1: 1, 1: 2}", "{true: 0, true: 1}", "{2u: 0, 2u: 1, 3u: 0}", "{'a': 1}", "{'a': 1, 'b': 2}", "{1: 'x', 2: 'y', 3: 'z'}", "{}", "{1: 0, 1u: 1}", "{'k': [1], 'k': [2]}"];
        let calls = ["map(K, K)", "map(K, true, K)", "map(K, [K])", "filter(K, true)", "filter(K, K == K)", "exists_one(K, K == K)", "exists_one(K, true)", "existsOne(K, true)", "all(K, K == K)", "exists(K, K != K)", "map(K, K == K, [K, K])", "filter(K, false)"];
        let mut cases = vec![];
        for m in maps {
            for c in calls {
                for nested in [false, true] {
                    cases.push(LitRecv { map_src: m.to_string(), call: c.to_string(), nested });
                }
            }
        }
        r.sweep("map-literals-as-direct-receivers", cases, check_literal_receiver);
    }
    {
        // every pair of stages over short lists with logging / raising bodies
        let lists = [V::List(vec![]), V::List(vec![V::Int(0)]), V::List(vec![V::Int(2), V::Int(1)]), V::List(vec![V::Int(1), V::Int(0), V::Int(3)]), V::List(vec![V::Int(3), V::Int(3), V::Int(2), V::Int(0)])];
        // (macro, pred, xform); pred 255 = no predicate (two-argument map)
        let firsts: [(Mac, u8, u8); 6] = [(Mac::Filter, 8, 0), (Mac::Filter, 5, 0), (Mac::Filter, 0, 0), (Mac::Map, 255, 3), (Mac::Map, 8, 3), (Mac::Map, 255, 2)];
        let seconds: [(Mac, u8, u8); 8] = [(Mac::Map, 255, 3), (Mac::Map, 255, 2), (Mac::Map, 8, 3), (Mac::Filter, 8, 0), (Mac::All, 8, 0), (Mac::Exists, 8, 0), (Mac::ExistsOne, 8, 0), (Mac::Map, 5, 3)];
        let tables: Vec<Table> = vec![
            vec![],
            vec![(V::Int(0), Some(V::Bool(true))), (V::Int(1), Some(V::Bool(false))), (V::Int(2), Some(V::Bool(true))), (V::Int(3), Some(V::Bool(true)))],
            vec![(V::Int(0), Some(V::Bool(true))), (V::Int(1), None), (V::Int(2), Some(V::Bool(true))), (V::Int(3), Some(V::Bool(false)))],
        ];
        let mut cases = vec![];
        for l in &lists {
            for f in firsts {
                for s2 in seconds {
                    for same_var in [true, false] {
                        for t in &tables {
                            cases.push(Pipe { range: l.clone(), first: f, second: s2, same_var, table: t.clone() });
                        }
                    }
                }
            }
        }
        r.sweep("two-stage-pipelines", cases, check_pipe);
    }
    r.random(
        "nested-macros-over-literal-ranges",
        12,
        r.tier.n(6_000, 200_000),
        |u: &mut Chooser| {
            // `xs.map(x, [A, B].map(y, x + y))` and relatives: same shape from case to case, different literals
            let inner = V::List((0..1 + u.below(3)).map(|_| V::Int(u.range(0, 40) as i64)).collect());
            let outer = V::List((0..u.below(4)).map(|_| V::Int(u.range(0, 3) as i64)).collect());
            Hetero { list: match (&outer, &inner) { (V::List(a), V::List(b)) => a.iter().chain(b.iter()).cloned().collect(), _ => vec![] }, outer: Some(inner), form: 5 + u.below(3) as u8 }
        },
        check_hetero,
    );
    r.random(
        "random-maps",
        80,
        n,
        |u| {
            let (mac, arity) = *u.pick(&MACS);
            let nk = u.below(7);
            let mut es: Vec<(V, V)> = vec![];
            for _ in 0..nk {
                let k = match u.below(3) {
                    0 => gen_key(u),
                    1 => V::Int(u.below(4) as i64),
                    _ => V::Str(gen_string(u)),
                };
                // distinct keys with distinct text (the log identifies a key by its text)
                if !es.iter().any(|(k2, _)| same(k2, &k) || show_key(k2) == show_key(&k)) {
                    es.push((k, V::Int(u.below(10) as i64)));
                }
            }
            let keys: Vec<V> = es.iter().map(|(k, _)| k.clone()).collect();
            let table = gen_table_for(u, &keys, true);
            Case { mac, arity, range: V::Map(es), body: N_PRED - 1 + if arity == 2 { N_PRED * 3 } else { 0 }, table, inner: None }
        },
        check,
    );
    {
        // every map over int keys {0..3} (16 key sets) x forms x pure bodies, as variable and as literal
        let mut cases = vec![];
        for mask in 0..16u32 {
            let es: Vec<(V, V)> = (0..4).filter(|k| mask & (1 << k) != 0).map(|k| (V::Int(k), V::Str(format!("v{k}")))).collect();
            for (mac, arity) in MACS {
                for body in 0..14u8 {
                    for literal_range in [false, true] {
                        cases.push(MapCase { mac, arity, range: V::Map(es.clone()), body, literal_range });
                    }
                }
            }
        }
        // string and mixed keys
        for es in [vec![(V::s("a"), V::Int(1))], vec![(V::s("a"), V::Int(1)), (V::s("b"), V::Int(2))], vec![(V::Bool(true), V::Int(1)), (V::UInt(2), V::Int(2)), (V::Int(3), V::Int(3))]] {
            for (mac, arity) in MACS {
                for body in [3u8, 4, 8, 9, 10, 11, 12, 13] {
                    for literal_range in [false, true] {
                        cases.push(MapCase { mac, arity, range: V::Map(es.clone()), body, literal_range });
                    }
                }
            }
        }
        r.sweep("maps-x-forms-x-pure-bodies-unordered", cases, check_map_unordered);
    }
    {
        // lists whose elements are equal-by-value numbers of different types, nulls, strings and nested lists: the
        // iteration variable must denote *the* current element (type-exact), also when an outer variable of the same
        // name holds a value that is == to it
        let alpha = [V::Int(1), V::UInt(1), V::f(1.0), V::Null, V::Int(2), V::s("a"), V::List(vec![V::UInt(1)])];
        let mut lists: Vec<Vec<V>> = vec![vec![]];
        let mut frontier: Vec<Vec<V>> = vec![vec![]];
        for _ in 0..3 {
            let mut next = vec![];
            for l in &frontier {
                for a in &alpha {
                    let mut l2 = l.clone();
                    l2.push(a.clone());
                    next.push(l2);
                }
            }
            lists.extend(next.iter().cloned());
            frontier = next;
        }
        let mut cases = vec![];
        for l in &lists {
            for outer in [None, Some(V::Int(1)), Some(V::f(1.0)), Some(V::Null)] {
                for form in [0u8, 1, 2, 3, 4, 8, 9, 10] {
                    cases.push(Hetero { list: l.clone(), outer: outer.clone(), form });
                }
            }
        }
        r.sweep("heterogeneous-lists-identity-bodies", cases, check_hetero);
    }
    r.random(
        "nested-two-deep",
        120,
        n,
        |u| {
            let (mac, arity) = *u.pick(&MACS);
            let (imac, _) = *u.pick(&MACS[..4]);
            let imac = if u.chance(1, 3) { *u.pick(&[Mac::Filter, Mac::Map]) } else { imac };
            let xs: Vec<V> = (0..u.below(5)).map(|_| V::Int(u.below(3) as i64)).collect();
            let ys: Vec<V> = (0..u.below(5)).map(|_| V::Int(u.below(3) as i64)).collect();
            let mut table: Table = vec![];
            for a in 0..3 {
                for bb in 0..3 {
                    let r = match u.below(8) {
                        0 => None,
                        1..=3 => Some(V::Bool(true)),
                        _ => Some(V::Bool(false)),
                    };
                    table.push((V::List(vec![V::Int(a), V::Int(bb)]), r));
                }
                table.push((V::Int(a), Some(V::Bool(u.flip()))));
            }
            Case { mac, arity, range: V::List(xs), body: 0, table, inner: Some((imac, V::List(ys))) }
        },
        check,
    );
    r.expect_class("early-exit", 1000);
    r.expect_class("error-before-last-element", 1000);
    r.expect_class("map-range", 1000);
}
