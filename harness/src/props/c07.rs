//! C07 — each operand is evaluated at most once, left to right, in bounded work.

use crate::engine::{fail, pass_n, Outcome, Runner};
use crate::gen::typed::{gen_ctx, gen_e, gen_type, Env, TypedCase};
use crate::model::eval::{eval, St, Stop};
use crate::model::expr::{b, E};
use crate::model::V;
use crate::props::c03::{agree, result_class, shape_classes};
use crate::sut::{self, Ran};
use serde::{Deserialize, Serialize};

/// structural facts used by the non-triviality rule
fn is_logged(e: &E) -> bool {
    matches!(e, E::Call(n, ..) if n == "t" || n.starts_with('h') || n.starts_with('m') && n.len() == 2 || n == "va")
}
fn is_operator_free_call(e: &E) -> bool {
    matches!(e, E::Call(..))
}

pub fn check(c: &TypedCase) -> Outcome {
    let vars = c.vars();
    let variants = crate::props::c03::model_variants(&c.expr, &vars, &vec![], false);
    if let Err(Stop::Unsupported(why)) = &variants[0].0 {
        return Outcome::Skip(why);
    }
    // where the statement leaves a choice (exists_one visiting elements after its second hit) either variant is fine
    let pick = |log: &Vec<String>| variants.iter().position(|(_, st)| st.log == *log).unwrap_or(0);
    let src = c.expr.render();
    let (ran, log) = sut::run_logged(&src, &vars, &vec![]);
    let got = match ran {
        Ran::Done(r) => r,
        other => return fail(format!("`{src}`: expected {:?}, observed {}", variants[0].0, other.show())),
    };
    let (model, st) = &variants[pick(&log)];
    let model = model.clone();
    if log != st.log {
        // say what kind of difference it is
        let kind = if log.len() > st.log.len() {
            "more host-function invocations than the program text allows (an operand was evaluated more than once or a skipped one was evaluated)"
        } else if log.len() < st.log.len() {
            "fewer host-function invocations than required"
        } else {
            "same invocations in a different order"
        };
        return fail(format!("`{src}`: {kind}: expected log {:?}, observed {:?}; result model {:?}, interpreter {}", st.log, sut::trunc(&format!("{log:?}"), 400), model, got.show()));
    }
    if !agree(&model, &got) {
        return fail(format!("`{src}` vars={}: model {:?}, interpreter {}", sut::trunc(&format!("{vars:?}"), 400), model, got.show()));
    }
    // non-trivial by the stated rule
    let first_arg_logged = c.expr.any(&|x| match x {
        E::Call(_, None, args) if (args.len() == 1 || args.len() == 2) && is_operator_free_call(x) => is_logged(&args[0]),
        _ => false,
    });
    let recv_and_args_logged = c.expr.any(&|x| match x {
        E::Call(_, Some(r), args) if !args.is_empty() => is_logged(r) && args.iter().all(is_logged),
        _ => false,
    });
    let macro_body_logged = c.expr.any(&|x| match x {
        E::Macro(_, _, _, body) => body.iter().any(|b| b.any(&is_logged)),
        _ => false,
    });
    let mut cl = shape_classes(&c.expr);
    cl.push(result_class(&model));
    if first_arg_logged {
        cl.push("logged-first-argument-of-1-or-2-arg-call");
    }
    if recv_and_args_logged {
        cl.push("logged-receiver-and-arguments");
    }
    if macro_body_logged {
        cl.push("logged-macro-body");
    }
    if model.is_err() {
        cl.push("log-is-prefix-up-to-error");
    }
    pass_n(first_arg_logged || recv_and_args_logged || macro_body_logged, cl)
}

#[derive(Clone, Debug, Serialize, Deserialize)]
pub struct Chain {
    pub func: String,
    pub style: u8,
    pub depth: usize,
}

fn chain_expr(c: &Chain) -> E {
    let seed = match c.func.as_str() {
        "string" => V::Str("7".into()),
        "size" => V::Str("abc".into()),
        _ => V::Int(7),
    };
    let mut e = E::call("t", vec![E::Lit(V::Int(1)), E::Lit(seed)]);
    for _ in 0..c.depth {
        e = match (c.func.as_str(), c.style) {
            ("va", _) => E::Index(b(E::call("va", vec![e])), b(E::Lit(V::Int(0)))),
            ("h2", _) => E::call("h2", vec![e, E::Lit(V::Int(0))]),
            ("contains", 0) => E::call("h1", vec![e]),
            (f, 0) => E::call(f, vec![e]),
            (f, _) => E::mcall(e, f, vec![]),
        };
    }
    e
}

pub fn check_chain(c: &Chain) -> Outcome {
    let e = chain_expr(c);
    let mut st = St::new(&[], vec![]);
    let model = eval(&e, &mut st);
    if let Err(Stop::Unsupported(w)) = &model {
        return Outcome::Skip(w);
    }
    let src = e.render();
    let (ran, log) = sut::run_logged(&src, &[], &vec![]);
    let got = match ran {
        Ran::Done(r) => r,
        o => return fail(format!("`{src}`: {}", o.show())),
    };
    if log.len() != st.log.len() {
        return fail(format!("`{src}`: {} host-function invocations observed, the program text allows exactly {} (nesting depth {}): work is not linear in depth", log.len(), st.log.len(), c.depth));
    }
    if log != st.log {
        return fail(format!("`{src}`: expected log {:?}, observed {:?}", st.log, log));
    }
    if !agree(&model, &got) {
        return fail(format!("`{src}`: model {:?}, interpreter {}", model, got.show()));
    }
    pass_n(c.depth >= 2, vec!["nested-one-argument-chain"])
}

pub fn run(r: &mut Runner) {
    r.rule = "cases: well-typed programs of depth <= 10 in which subterms are wrapped by logging host functions of every call shape (t(id, e); h1..h4 global; m0..m3 in \
              receiver and global style; variadic va(..); a call with a missing argument; list elements), nested in operators, literals, index, select, conditional and macro \
              ranges and bodies; plus every nested one-argument chain f(f(..f(t(1,x))..)) of depth 1-10 for host and built-in functions in both call styles. \
              Oracle: the reference evaluator's ordered host-call log must equal the observed log (so each operand is evaluated exactly as often as its enclosing node, in source order, \
              receiver before arguments) and the invocation count equals the model's count (work linear in depth). On an error the log is the prefix up to the error. \
              Non-trivial: a logged subexpression is the first argument of a 1- or 2-argument non-operator call, or receiver and all arguments are logged, or a macro body is logged; distinct by (context, source)."
        .into();
    r.assumptions = vec!["calls with surplus arguments are not generated (the statement only promises 'at most once' for them)".into()];
    let funcs = ["h1", "h2", "m0", "va", "int", "string", "double", "uint", "size"];
    let mut chains = vec![];
    for f in funcs {
        for style in 0..2u8 {
            if style == 1 && matches!(f, "h1" | "h2" | "va") {
                continue;
            }
            for depth in 1..=10usize {
                if f == "size" && depth > 1 {
                    continue;
                }
                chains.push(Chain { func: f.to_string(), style, depth });
            }
        }
    }
    r.sweep("nested-chains", chains, check_chain);
    let n = r.tier.n(25_000, 1_000_000);
    r.random(
        "logged-programs",
        900,
        n,
        |u| {
            let ctx = gen_ctx(u);
            let ty = gen_type(u, 1);
            let depth = 1 + u.below(7);
            let mut env = Env::new(&ctx);
            env.logged = true;
            env.host_calls = true;
            let expr = gen_e(u, &ty, &mut env, depth);
            TypedCase { ctx, ty, expr }
        },
        check,
    );
    r.expect_class("logged-first-argument-of-1-or-2-arg-call", 1000);
    r.expect_class("logged-receiver-and-arguments", 200);
    r.expect_class("logged-macro-body", 500);
}
