//! C02 — executing any program against any context returns a value or an error.

use crate::chooser::Chooser;
use crate::engine::{fail, guard, pass_n, Outcome, Runner};
use crate::gen::untyped::{gen_untyped, Pool};
use crate::gen::{gen_dur, gen_ts, gen_value, ValOpts};
use crate::model::expr::E;
use crate::model::num::{f64_boundary, i64_boundary, u64_boundary};
use crate::model::{F, V};
use crate::sut::{self, to_cel, Ran, R};
use serde::{Deserialize, Serialize};

#[derive(Clone, Debug, Serialize, Deserialize)]
pub struct Prog {
    pub expr: E,
    pub ctx: Vec<(String, V)>,
}

pub const ERR_VARIANTS: [&str; 22] = [
    "InvalidArgumentCount",
    "UnsupportedTargetType",
    "NotSupportedAsMethod",
    "UnsupportedKeyType",
    "UnexpectedType",
    "NoSuchKey",
    "UndeclaredReference",
    "MissingArgumentOrTarget",
    "ValuesNotComparable",
    "UnsupportedUnaryOperator",
    "UnsupportedBinaryOperator",
    "UnsupportedMapIndex",
    "UnsupportedListIndex",
    "UnsupportedIndex",
    "UnsupportedFunctionCallIdentifierType",
    "UnsupportedFieldsConstruction",
    "FunctionError",
    "DivisionByZero",
    "RemainderByZero",
    "IntegerOverflow",
    "err:other-variant",
    "ok",
];

pub fn gen_ctx(u: &mut Chooser) -> Vec<(String, V)> {
    let mut c: Vec<(String, V)> = vec![];
    let o = ValOpts::ALL;
    let typed: [(&str, u8); 12] = [("i0", 0), ("u0", 1), ("d0", 2), ("s0", 3), ("y0", 4), ("b0", 5), ("n0", 6), ("l0", 7), ("m0v", 8), ("dur0", 9), ("ts0", 10), ("fn0", 11)];
    for (name, k) in typed {
        // mostly the kind the name suggests, sometimes anything at all
        let v = if u.chance(1, 5) {
            gen_value(u, 3, o)
        } else {
            match k {
                0 => V::Int(crate::gen::gen_i64(u)),
                1 => V::UInt(crate::gen::gen_u64(u)),
                2 => V::Float(F(crate::gen::gen_f64(u))),
                3 => V::Str(crate::gen::gen_string(u)),
                4 => V::Bytes(crate::gen::gen_bytes(u)),
                5 => V::Bool(u.flip()),
                6 => V::Null,
                7 => V::List((0..u.below(4)).map(|_| gen_value(u, 2, o)).collect()),
                8 => {
                    let mut es: Vec<(V, V)> = vec![];
                    for _ in 0..u.below(4) {
                        let k = crate::gen::gen_key(u);
                        if !es.iter().any(|(k2, _)| crate::model::same(k2, &k)) {
                            es.push((k, gen_value(u, 2, o)));
                        }
                    }
                    V::Map(es)
                }
                9 => gen_dur(u),
                10 => gen_ts(u),
                _ => V::Func(u.pick(&["size", "f", "contains"]).to_string(), if u.flip() { Some(Box::new(gen_value(u, 1, o))) } else { None }),
            }
        };
        c.push((name.to_string(), v));
    }
    if u.flip() {
        c.push(("x".into(), gen_value(u, 2, o)));
    }
    if u.flip() {
        c.push(("y".into(), gen_value(u, 2, o)));
    }
    c
}

fn err_class(msg_debug: &str) -> &'static str {
    for v in ERR_VARIANTS.iter().take(20) {
        if msg_debug.starts_with(v) {
            return v;
        }
    }
    "err:other-variant"
}

pub fn check_prog(c: &Prog) -> Outcome {
    let src = c.expr.render();
    let prog = match sut::compile(&src) {
        Err(p) => return fail(format!("compile of `{src}` {}", p.short())),
        Ok(Err(_)) => return pass_n(false, vec!["does-not-compile"]),
        Ok(Ok(p)) => p,
    };
    // values chrono cannot represent are dropped from the context (they cannot be supplied by a host either)
    let vars: Vec<(String, V)> = c.ctx.iter().filter(|(_, v)| to_cel(v).is_some()).cloned().collect();
    let log = sut::new_log();
    let mut ctx = sut::ctx_with(&vars);
    sut::install_host(&mut ctx, &log, &vec![(V::Int(1), Some(V::Bool(true))), (V::Int(2), None)]);
    let r = guard(|| prog.execute(&ctx));
    match r {
        Err(p) => fail(format!("`{src}` with {}: {}", sut::trunc(&format!("{vars:?}"), 700), p.short())),
        Ok(res) => {
            let class = match &res {
                Ok(_) => "ok",
                Err(e) => err_class(&format!("{e:?}")),
            };
            // rendering the outcome must not panic either (Debug / Display of values and errors)
            let shown = guard(|| match &res {
                Ok(v) => format!("{v:?}").len(),
                Err(e) => format!("{e} {e:?}").len(),
            });
            if let Err(p) = shown {
                return fail(format!("`{src}`: rendering the outcome {}", p.short()));
            }
            let ops = c.expr.count(&|x| !matches!(x, E::Lit(_) | E::Var(_) | E::Raw(_)));
            let past_first_leaf = !matches!(&res, Err(cel_interpreter::ExecutionError::UndeclaredReference(_))) || ops >= 3;
            let mut cl = vec![class];
            if c.expr.any(&|x| matches!(x, E::Macro(..))) {
                cl.push("has:macro");
            }
            if c.expr.any(&|x| matches!(x, E::Struct(..))) {
                cl.push("has:struct");
            }
            if c.expr.any(&|x| matches!(x, E::Call(_, Some(_), _))) {
                cl.push("has:receiver-call");
            }
            pass_n(ops >= 1 && past_first_leaf, cl)
        }
    }
}

#[derive(Clone, Debug, Serialize, Deserialize)]
pub struct Pair {
    pub a: V,
    pub b: V,
    /// 0 + 1 - 2 * 3 / 4 % 5 == 6 partial_cmp
    pub op: u8,
}

pub fn boundary_values() -> Vec<V> {
    let mut v: Vec<V> = vec![];
    for i in i64_boundary().into_iter().step_by(3) {
        v.push(V::Int(i));
    }
    for i in [0, 1, -1, i64::MAX, i64::MIN, i64::MIN + 1, i64::MAX - 1] {
        v.push(V::Int(i));
    }
    for x in u64_boundary().into_iter().step_by(4) {
        v.push(V::UInt(x));
    }
    for x in [0, 1, u64::MAX, 1u64 << 63] {
        v.push(V::UInt(x));
    }
    for f in f64_boundary() {
        v.push(V::Float(F(f)));
    }
    for s in ["", "a", "é", "𝄞", "abc"] {
        v.push(V::Str(s.into()));
    }
    v.push(V::Bytes(vec![]));
    v.push(V::Bytes(vec![0xff, 0]));
    v.push(V::Bool(true));
    v.push(V::Bool(false));
    v.push(V::Null);
    v.push(V::List(vec![]));
    v.push(V::List(vec![V::Int(1), V::Null]));
    v.push(V::List(vec![V::List(vec![V::f(f64::NAN)])]));
    v.push(V::Map(vec![]));
    v.push(V::Map(vec![(V::Str("a".into()), V::Int(1))]));
    v.push(V::Map(vec![(V::Int(1), V::Null), (V::UInt(1), V::Bool(true))]));
    let i64max = i64::MAX as i128;
    for ns in [0i128, 1, -1, i64max, -i64max - 1, i64max + 1, -i64max - 2, 9_223_372_036_854_775i128 * 1_000_000_000_000, -9_223_372_036_854_775i128 * 1_000_000_000_000] {
        v.push(V::dur_ns(ns));
    }
    // chrono::Duration::MAX / MIN (±i64::MAX milliseconds)
    v.push(V::Dur(i64::MAX / 1000, (i64::MAX % 1000) as u32 * 1_000_000));
    v.push(V::Dur(-(i64::MAX / 1000) - 1, 1_000_000_000 - (i64::MAX % 1000) as u32 * 1_000_000));
    for (s, n, o) in [
        (0i64, 0u32, 0i32),
        (-62135596800, 0, 0),
        (253402300799, 999_999_999, 0),
        (253402300799, 999_999_999, 86399),
        (-62135596800, 0, -86399),
        (8_210_266_876_799, 999_999_999, 0),   // chrono's upper limit (+262142-12-31T23:59:59Z)
        (-8_334_601_228_800, 0, 0),            // chrono's lower limit (-262143-01-01T00:00:00Z)
        (8_210_266_876_799, 0, -86399),
        (-8_334_601_228_800, 0, 86399),
        (1, 500_000_000, 3600),
        // inside the first / last representable year, where local-date arithmetic can leave chrono's range
        (-8_334_601_228_800 + 40 * 86400, 0, 86399),
        (-8_334_601_228_800 + 2 * 86400 + 5, 1, 50400),
        (-8_334_601_228_800 + 3 * 86400 + 43200, 0, 50400),
        (-8_334_601_228_800 + 100 * 86400 + 80000, 0, 86399),
        (8_210_266_876_799 - 5 * 86400 - 43200, 0, -50400),
        (-8_334_601_228_800 + 200 * 86400, 0, 0),
        (8_210_266_876_799 - 40 * 86400, 0, -86399),
        (8_210_266_876_799 - 3 * 86400, 999_999_999, -43200),
        // the local time itself outside chrono's range: the last instant seen from east of Greenwich, the first from west
        (8_210_266_876_799, 999_999_999, 3600),
        (8_210_266_876_799, 0, 86399),
        (-8_334_601_228_800, 0, -3600),
        (-8_334_601_228_800, 1, -86399),
        (8_210_266_876_799 - 1800, 0, 3600),
    ] {
        v.push(V::Ts(s, n, o));
    }
    v.push(V::Func("size".into(), None));
    v.push(V::Func("f".into(), Some(Box::new(V::Int(1)))));
    v.retain(|x| to_cel(x).is_some());
    v
}

pub fn check_pair(c: &Pair) -> Outcome {
    let (Some(a), Some(b)) = (to_cel(&c.a), to_cel(&c.b)) else { return Outcome::Skip("not-representable-in-chrono") };
    // "arbitrary values" includes values the host still observes: a second strong reference (a clone kept by the host)
    // or a weak one to the operands' shared storage, in rotation
    let observe = (format!("{:?}{:?}", c.a, c.b).bytes().fold(0u32, |h, x| h.wrapping_mul(31).wrapping_add(x as u32)) % 3) as u8;
    let keep_strong = if observe == 1 { Some((a.clone(), b.clone())) } else { None };
    let weak = |v: &cel_interpreter::Value| -> Option<Box<dyn std::any::Any>> {
        use cel_interpreter::Value as CV;
        match v {
            CV::String(x) => Some(Box::new(std::sync::Arc::downgrade(x))),
            CV::Bytes(x) => Some(Box::new(std::sync::Arc::downgrade(x))),
            CV::List(x) => Some(Box::new(std::sync::Arc::downgrade(x))),
            CV::Map(m) => Some(Box::new(std::sync::Arc::downgrade(&m.map))),
            _ => None,
        }
    };
    let keep_weak = if observe == 2 { (weak(&a), weak(&b)) } else { (None, None) };
    let r = guard(|| -> &'static str {
        match c.op {
            0 => match a + b {
                Ok(_) => "ok",
                Err(_) => "err",
            },
            1 => match a - b {
                Ok(_) => "ok",
                Err(_) => "err",
            },
            2 => match a * b {
                Ok(_) => "ok",
                Err(_) => "err",
            },
            3 => match a / b {
                Ok(_) => "ok",
                Err(_) => "err",
            },
            4 => match a % b {
                Ok(_) => "ok",
                Err(_) => "err",
            },
            5 => {
                if a == b {
                    "equal"
                } else {
                    "unequal"
                }
            }
            _ => match a.partial_cmp(&b) {
                Some(_) => "ordered",
                None => "unordered",
            },
        }
    });
    drop(keep_strong);
    drop(keep_weak);
    match r {
        Err(p) => fail(format!("{:?} {} {:?} through the operator trait: {}", c.a, ["+", "-", "*", "/", "%", "==", "partial_cmp"][c.op as usize], c.b, p.short())),
        Ok(class) => {
            let cl = match (c.op, class) {
                (0..=4, "ok") => "direct-arith-ok",
                (0..=4, _) => "direct-arith-err",
                (5, _) => "direct-eq",
                _ => "direct-cmp",
            };
            pass_n(c.a.kind() != c.b.kind() || matches!(c.a, V::Dur(..) | V::Ts(..) | V::Int(_) | V::UInt(_)), vec![cl])
        }
    }
}

/// built-ins applied to extreme receivers through real programs (every built-in × every boundary value)
#[derive(Clone, Debug, Serialize, Deserialize)]
pub struct Builtin {
    pub func: String,
    pub recv: V,
    pub arg: Option<V>,
    pub style: u8,
}

pub fn check_builtin(c: &Builtin) -> Outcome {
    let mut vars = vec![("r".to_string(), c.recv.clone())];
    let args = if let Some(a) = &c.arg {
        vars.push(("a".to_string(), a.clone()));
        "a"
    } else {
        ""
    };
    let src = match c.style {
        0 => format!("r.{}({})", c.func, args),
        _ => format!("{}(r{}{})", c.func, if args.is_empty() { "" } else { ", " }, args),
    };
    match sut::run_src(&src, &vars) {
        Ran::CompilePanic(p) => fail(format!("`{src}`: compile {}", p.short())),
        Ran::Done(R::Panic(p)) => fail(format!("`{src}` with r={:?} a={:?}: {}", c.recv, c.arg, p.short())),
        Ran::Done(R::Val(_)) => pass_n(true, vec!["builtin-on-boundary-ok"]),
        Ran::Done(R::Err(..)) => pass_n(true, vec!["builtin-on-boundary-err"]),
        Ran::NoCompile(_) => pass_n(false, vec!["does-not-compile"]),
    }
}

/// many calls of string-keyed built-ins (matches / duration / timestamp / int / double) with generated texts, valid and
/// invalid, one after the other in one process: whatever the implementation remembers between calls, none of them panics
#[derive(Clone, Debug, Serialize, Deserialize)]
pub struct Churn {
    pub func: String,
    pub base: u32,
    pub count: u16,
}

fn churn_text(func: &str, k: u32) -> String {
    match (func, k % 4) {
        ("matches", 0) => format!("({k}"),
        ("matches", 1) => format!("a{k}"),
        ("matches", 2) => format!("[{k}"),
        ("matches", _) => format!("x{{{k},1}}"),
        ("duration", 0) => format!("{k}x"),
        ("duration", 1) => format!("{k}s"),
        ("duration", 2) => format!("1h{k}"),
        ("duration", _) => format!("{k}ms{k}"),
        ("timestamp", 0) => format!("2020-01-01T00:00:{:02}Z", k % 60),
        ("timestamp", 1) => format!("2020-13-{k}"),
        ("timestamp", 2) => format!("{k}"),
        ("timestamp", _) => format!("20{:02}-02-30T00:00:00Z", k % 100),
        (_, 0) => format!("{k}"),
        (_, 1) => format!("{k}q"),
        (_, 2) => format!("-{k}"),
        _ => format!("{k}.{k}e"),
    }
}

pub fn check_churn(c: &Churn) -> Outcome {
    let src = if c.func == "matches" { "'subject a1 x'.matches(p)".to_string() } else { format!("{}(p)", c.func) };
    let (mut ok, mut err) = (0, 0);
    for i in 0..c.count as u32 {
        let text = churn_text(&c.func, c.base.wrapping_add(i));
        match sut::run_src(&src, &[("p".to_string(), V::Str(text.clone()))]) {
            Ran::CompilePanic(p) => return fail(format!("`{src}`: compile {}", p.short())),
            Ran::Done(R::Panic(p)) => return fail(format!("call {i} of {} consecutive calls `{src}` with p = {text:?} (texts {}(base {} + i)): {}", c.count, c.func, c.base, p.short())),
            Ran::Done(R::Val(_)) => ok += 1,
            _ => err += 1,
        }
    }
    pass_n(ok > 0 && err > 0, vec!["consecutive-calls-with-many-distinct-texts"])
}

pub fn run(r: &mut Runner) {
    r.rule = "cases: (untyped grammar-generated program of depth <= 8 over every operator, macro, built-in in both call styles, literal form, struct literal, select/index/has; \
              context with i64/u64 extremes, NaN/inf, empty and non-ASCII strings/bytes, nested lists/maps, durations and timestamps up to chrono's limits, function values, and \
              host functions of arity 0-4 including failing ones); all ordered pairs of a boundary value set under + - * / % == partial_cmp applied directly through the operator traits; \
              every built-in applied to every boundary value in both call styles; 150-400 consecutive calls of matches / duration / timestamp / int / double with distinct valid and invalid texts in one process. Oracle: the outcome is Ok or Err - no panic, no abort (worker processes are supervised), and rendering the \
              outcome does not panic. Non-trivial: the program compiled, has at least one operator/call and evaluation got past the first leaf; pairs of different kinds or numeric/time kinds; distinct by (source, context)."
        .into();
    r.assumptions = vec!["all cases run on an 8 MiB stack; depth <= 8 is inside the safe envelope (DESIGN §1)".into(), "overflow checks are enabled in the harness build, so unchecked arithmetic in the interpreter panics instead of wrapping".into()];
    let bv = boundary_values();
    let n = bv.len() as u64;
    r.extra.insert("boundary_values".into(), serde_json::json!(n));
    {
        let bv = bv.clone();
        r.sweep_fn("direct-operator-pairs", n * n * 7, move |i| Pair { a: bv[(i / 7 / n) as usize].clone(), b: bv[((i / 7) % n) as usize].clone(), op: (i % 7) as u8 }, check_pair);
    }
    {
        // built-ins × receivers (× a few arguments)
        let unary = ["size", "string", "int", "uint", "double", "bytes", "getFullYear", "getMonth", "getDayOfYear", "getDayOfMonth", "getDate", "getDayOfWeek", "getHours", "getMinutes", "getSeconds", "getMilliseconds", "duration", "timestamp", "max", "min"];
        let binary = ["contains", "startsWith", "endsWith", "matches", "max", "min"];
        let args: Vec<V> = vec![V::s(""), V::s("a"), V::s("("), V::Bytes(vec![]), V::Int(0), V::Null, V::f(f64::NAN), V::List(vec![])];
        let mut cases = vec![];
        for f in unary {
            for v in &bv {
                for style in 0..2u8 {
                    cases.push(Builtin { func: f.to_string(), recv: v.clone(), arg: None, style });
                }
            }
        }
        for f in binary {
            for v in &bv {
                for a in &args {
                    cases.push(Builtin { func: f.to_string(), recv: v.clone(), arg: Some(a.clone()), style: 0 });
                    cases.push(Builtin { func: f.to_string(), recv: v.clone(), arg: Some(a.clone()), style: 1 });
                }
            }
        }
        // strings fed to the parsers behind duration() / timestamp() / int() / double()
        let long1 = format!("1.{}s", "3".repeat(45));
        let long2 = format!("0.{}1s", "0".repeat(140));
        let long3 = "9".repeat(50);
        for s in [long1.as_str(), long2.as_str(), long3.as_str(), "", "0", "-0", "1h", "-1h", "9223372036854775807ns", "-9223372036854775808ns", "9223372036854775808ns", "99999999999999999999h", "1e400s", ".s", "1.s", "nan", "inf", "1µs", "0001-01-01T00:00:00Z", "9999-12-31T23:59:59.999999999+23:59", "+262142-12-31T23:59:59Z", "2016-12-31T23:59:60Z", "1e400", "0x10", " 1"] {
            for f in ["duration", "timestamp", "int", "uint", "double", "string", "bytes"] {
                cases.push(Builtin { func: f.to_string(), recv: V::s(s), arg: None, style: 1 });
            }
        }
        r.sweep("builtins-on-boundary-values", cases, check_builtin);
        // very long runs of prefix operators, very long chains and deep but legal nesting: compiled and executed
        let mut long: Vec<Prog> = vec![];
        for n in [100usize, 1_000, 4_000, 20_001, 60_000] {
            long.push(Prog { expr: E::Raw(format!("{}true", "!".repeat(n))), ctx: vec![] });
            long.push(Prog { expr: E::Raw(format!("{}1", "-".repeat(n))), ctx: vec![] });
            long.push(Prog { expr: E::Raw(format!("{}x", "- ".repeat(n))), ctx: vec![("x".to_string(), V::Int(i64::MIN))] });
            long.push(Prog { expr: E::Raw(format!("{}b", "! ".repeat(n + 1))), ctx: vec![("b".to_string(), V::Bool(false))] });
        }
        // (chains build trees as deep as they are long; 100 links stay well inside the 8 MiB stack envelope of DESIGN §1)
        for n in [30usize, 100] {
            long.push(Prog { expr: E::Raw(vec!["1"; n].join(" + ")), ctx: vec![] });
            long.push(Prog { expr: E::Raw(vec!["true"; n].join(" && ")), ctx: vec![] });
            long.push(Prog { expr: E::Raw(format!("x{}", ".a".repeat(n))), ctx: vec![("x".to_string(), V::Map(vec![]))] });
            long.push(Prog { expr: E::Raw(format!("x{}", "[0]".repeat(n))), ctx: vec![("x".to_string(), V::List(vec![]))] });
        }
        r.sweep("very-long-runs-and-chains", long, check_prog);
    }
    let pool = Pool::c02();
    let np = r.tier.n(30_000, 1_000_000);
    r.random(
        "untyped-programs",
        900,
        np,
        |u| {
            let depth = 1 + u.below(7);
            let expr = gen_untyped(u, depth, &pool);
            let ctx = gen_ctx(u);
            Prog { expr, ctx }
        },
        check_prog,
    );
    r.random(
        "random-direct-pairs",
        120,
        np / 2,
        |u| Pair { a: gen_value(u, 3, ValOpts::ALL), b: gen_value(u, 3, ValOpts::ALL), op: u.below(7) as u8 },
        check_pair,
    );
    r.random(
        "many-distinct-texts-one-after-the-other",
        8,
        r.tier.n(48, 1600),
        |u| Churn { func: u.pick(&["matches", "matches", "duration", "timestamp", "int", "double"]).to_string(), base: u.below(1 << 20) as u32, count: (150 + u.below(250)) as u16 },
        check_churn,
    );
    for v in ERR_VARIANTS {
        if !matches!(v, "UnsupportedFunctionCallIdentifierType" | "UnsupportedFieldsConstruction" | "NotSupportedAsMethod" | "err:other-variant") {
            r.expect_class(v, 5);
        }
    }
    r.expect_class("has:macro", 1000);
    r.expect_class("has:struct", 500);
}
