//! C17 — host data converts to CEL values without loss of structure.

use crate::chooser::Chooser;
use crate::engine::{fail, guard, pass_n, Outcome, Runner};
use crate::gen::{gen_f64, gen_i64, gen_string, gen_u64};
use crate::model::{same, F, V};
use crate::sut::{dur_to_chrono, from_cel, ts_to_chrono};
use serde::ser::{SerializeMap, SerializeSeq, SerializeStruct, SerializeStructVariant, SerializeTuple, SerializeTupleStruct, SerializeTupleVariant};
use serde::{Deserialize, Serialize, Serializer};

pub const NAMES: [&str; 8] = ["a", "b", "field_a", "k", "x1", "Variant", "size", ""];

/// "any serde type": one constructor per method of the Serializer interface
#[derive(Clone, Debug, Serialize, Deserialize)]
pub enum S {
    Bool(bool),
    I8(i8),
    I16(i16),
    I32(i32),
    I64(i64),
    I128(String),
    U8(u8),
    U16(u16),
    U32(u32),
    U64(u64),
    U128(String),
    F32(F),
    F64(F),
    Char(char),
    Str(String),
    Bytes(Vec<u8>),
    None,
    Some(Box<S>),
    Unit,
    UnitStruct,
    UnitVariant(u8),
    NewtypeStruct(Box<S>),
    NewtypeVariant(u8, Box<S>),
    Seq(Vec<S>),
    Tuple(Vec<S>),
    TupleStruct(Vec<S>),
    TupleVariant(u8, Vec<S>),
    Map(Vec<(S, S)>),
    Struct(Vec<(u8, S)>),
    StructVariant(u8, Vec<(u8, S)>),
    /// the Duration wrapper: (floor secs, nanos)
    Dur(i64, u32),
    /// the Timestamp wrapper
    Ts(i64, u32, i32),
    /// a host type whose Serialize implementation asks `is_human_readable()` (text for formats like JSON, compact
    /// binary otherwise): kind 0 = std::net::Ipv4Addr, 1 = std::net::SocketAddrV4 (port 8080), 2 = std::net::IpAddr::V4
    Net(u8, u32),
    /// inside a struct: a field the host type skips (`#[serde(skip_serializing_if = ...)]` calls `skip_field`); anywhere
    /// else it serialises as unit
    SkippedField,
}

fn name(i: u8) -> &'static str {
    NAMES[i as usize % NAMES.len()]
}

thread_local! {
    pub static METHODS: std::cell::RefCell<std::collections::BTreeMap<&'static str, u64>> = const { std::cell::RefCell::new(std::collections::BTreeMap::new()) };
}
fn hit(m: &'static str) {
    METHODS.with(|h| *h.borrow_mut().entry(m).or_default() += 1);
}

/// the same data through serde's interface
pub struct AnySer<'a>(pub &'a S);

impl Serialize for AnySer<'_> {
    fn serialize<Z: Serializer>(&self, z: Z) -> Result<Z::Ok, Z::Error> {
        match self.0 {
            S::Bool(v) => {
                hit("serialize_bool");
                z.serialize_bool(*v)
            }
            S::I8(v) => {
                hit("serialize_i8");
                z.serialize_i8(*v)
            }
            S::I16(v) => {
                hit("serialize_i16");
                z.serialize_i16(*v)
            }
            S::I32(v) => {
                hit("serialize_i32");
                z.serialize_i32(*v)
            }
            S::I64(v) => {
                hit("serialize_i64");
                z.serialize_i64(*v)
            }
            S::I128(v) => {
                hit("serialize_i128");
                z.serialize_i128(v.parse().unwrap_or(0))
            }
            S::U8(v) => {
                hit("serialize_u8");
                z.serialize_u8(*v)
            }
            S::U16(v) => {
                hit("serialize_u16");
                z.serialize_u16(*v)
            }
            S::U32(v) => {
                hit("serialize_u32");
                z.serialize_u32(*v)
            }
            S::U64(v) => {
                hit("serialize_u64");
                z.serialize_u64(*v)
            }
            S::U128(v) => {
                hit("serialize_u128");
                z.serialize_u128(v.parse().unwrap_or(0))
            }
            S::F32(v) => {
                hit("serialize_f32");
                z.serialize_f32(v.0 as f32)
            }
            S::F64(v) => {
                hit("serialize_f64");
                z.serialize_f64(v.0)
            }
            S::Char(c) => {
                hit("serialize_char");
                z.serialize_char(*c)
            }
            S::Str(s) => {
                hit("serialize_str");
                z.serialize_str(s)
            }
            S::Bytes(b) => {
                hit("serialize_bytes");
                z.serialize_bytes(b)
            }
            S::None => {
                hit("serialize_none");
                z.serialize_none()
            }
            S::Some(x) => {
                hit("serialize_some");
                z.serialize_some(&AnySer(x))
            }
            S::Unit => {
                hit("serialize_unit");
                z.serialize_unit()
            }
            S::UnitStruct => {
                hit("serialize_unit_struct");
                z.serialize_unit_struct("U")
            }
            S::UnitVariant(i) => {
                hit("serialize_unit_variant");
                z.serialize_unit_variant("E", *i as u32, name(*i))
            }
            S::NewtypeStruct(x) => {
                hit("serialize_newtype_struct");
                z.serialize_newtype_struct("N", &AnySer(x))
            }
            S::NewtypeVariant(i, x) => {
                hit("serialize_newtype_variant");
                z.serialize_newtype_variant("E", *i as u32, name(*i), &AnySer(x))
            }
            // the way std collections serialise: through the Serializer's collect_seq / collect_map hooks
            S::Seq(xs) if xs.len() % 2 == 1 => {
                hit("collect_seq");
                z.collect_seq(xs.iter().map(AnySer))
            }
            S::Map(es) if es.len() % 2 == 1 => {
                hit("collect_map");
                z.collect_map(es.iter().map(|(k, v)| (AnySer(k), AnySer(v))))
            }
            S::Seq(xs) => {
                hit("serialize_seq");
                let mut s = z.serialize_seq(Some(xs.len()))?;
                for x in xs {
                    s.serialize_element(&AnySer(x))?;
                }
                s.end()
            }
            S::Tuple(xs) => {
                hit("serialize_tuple");
                let mut s = z.serialize_tuple(xs.len())?;
                for x in xs {
                    s.serialize_element(&AnySer(x))?;
                }
                s.end()
            }
            S::TupleStruct(xs) => {
                hit("serialize_tuple_struct");
                let mut s = z.serialize_tuple_struct("TS", xs.len())?;
                for x in xs {
                    s.serialize_field(&AnySer(x))?;
                }
                s.end()
            }
            S::TupleVariant(i, xs) => {
                hit("serialize_tuple_variant");
                let mut s = z.serialize_tuple_variant("E", *i as u32, name(*i), xs.len())?;
                for x in xs {
                    s.serialize_field(&AnySer(x))?;
                }
                s.end()
            }
            S::Map(es) => {
                hit("serialize_map");
                let mut s = z.serialize_map(Some(es.len()))?;
                for (k, v) in es {
                    s.serialize_key(&AnySer(k))?;
                    s.serialize_value(&AnySer(v))?;
                }
                s.end()
            }
            S::Struct(fs) => {
                hit("serialize_struct");
                let mut s = z.serialize_struct("St", fs.iter().filter(|(_, v)| !matches!(v, S::SkippedField)).count())?;
                for (k, v) in fs {
                    if matches!(v, S::SkippedField) {
                        hit("skip_field");
                        s.skip_field(name(*k))?;
                    } else {
                        s.serialize_field(name(*k), &AnySer(v))?;
                    }
                }
                s.end()
            }
            S::StructVariant(i, fs) => {
                hit("serialize_struct_variant");
                let mut s = z.serialize_struct_variant("E", *i as u32, name(*i), fs.iter().filter(|(_, v)| !matches!(v, S::SkippedField)).count())?;
                for (k, v) in fs {
                    if matches!(v, S::SkippedField) {
                        hit("skip_field");
                        s.skip_field(name(*k))?;
                    } else {
                        s.serialize_field(name(*k), &AnySer(v))?;
                    }
                }
                s.end()
            }
            S::SkippedField => {
                hit("serialize_unit");
                z.serialize_unit()
            }
            S::Dur(secs, nanos) => {
                hit("Duration-wrapper");
                match dur_to_chrono(*secs, *nanos) {
                    Some(d) => cel_interpreter::Duration(d).serialize(z),
                    None => z.serialize_unit(),
                }
            }
            S::Net(kind, bits) => {
                hit("is_human_readable-sensitive-host-type");
                let ip = std::net::Ipv4Addr::from(*bits);
                match kind % 3 {
                    0 => ip.serialize(z),
                    1 => std::net::SocketAddrV4::new(ip, 8080).serialize(z),
                    _ => std::net::IpAddr::V4(ip).serialize(z),
                }
            }
            S::Ts(secs, nanos, off) => {
                hit("Timestamp-wrapper");
                match ts_to_chrono(*secs, *nanos, *off) {
                    Some(t) => cel_interpreter::Timestamp(t).serialize(z),
                    None => z.serialize_unit(),
                }
            }
        }
    }
}

/// shape model: Ok(value) = a successful conversion must yield exactly this; Err(()) = no CEL value of the same shape exists, so the conversion has to fail
pub fn shape(s: &S) -> Result<V, ()> {
    Ok(match s {
        S::Bool(b) => V::Bool(*b),
        S::I8(v) => V::Int(*v as i64),
        S::I16(v) => V::Int(*v as i64),
        S::I32(v) => V::Int(*v as i64),
        S::I64(v) => V::Int(*v),
        S::I128(v) => match v.parse::<i128>().ok().and_then(|x| i64::try_from(x).ok()) {
            Some(x) => V::Int(x),
            None => return Err(()),
        },
        S::U8(v) => V::UInt(*v as u64),
        S::U16(v) => V::UInt(*v as u64),
        S::U32(v) => V::UInt(*v as u64),
        S::U64(v) => V::UInt(*v),
        S::U128(v) => match v.parse::<u128>().ok().and_then(|x| u64::try_from(x).ok()) {
            Some(x) => V::UInt(x),
            None => return Err(()),
        },
        S::F32(v) => V::f((v.0 as f32) as f64),
        S::F64(v) => V::f(v.0),
        S::Char(c) => V::Str(c.to_string()),
        S::Str(s) => V::Str(s.clone()),
        S::Bytes(b) => V::Bytes(b.clone()),
        S::None | S::Unit | S::UnitStruct | S::SkippedField => V::Null,
        S::Some(x) | S::NewtypeStruct(x) => shape(x)?,
        S::UnitVariant(i) => V::s(name(*i)),
        S::NewtypeVariant(i, x) => V::Map(vec![(V::s(name(*i)), shape(x)?)]),
        S::Seq(xs) | S::Tuple(xs) | S::TupleStruct(xs) => V::List(xs.iter().map(shape).collect::<Result<Vec<_>, _>>()?),
        S::TupleVariant(i, xs) => V::Map(vec![(V::s(name(*i)), V::List(xs.iter().map(shape).collect::<Result<Vec<_>, _>>()?))]),
        S::Map(es) => {
            let mut out: Vec<(V, V)> = vec![];
            for (k, v) in es {
                let kk = key_shape(k)?;
                let vv = shape(v)?;
                if let Some(slot) = out.iter_mut().find(|(k2, _)| same(k2, &kk)) {
                    slot.1 = vv; // a later duplicate overwrites, as in serde_json (the commutation clause fixes this)
                } else {
                    out.push((kk, vv));
                }
            }
            V::Map(out)
        }
        S::Struct(fs) => V::Map(fields(fs)?),
        S::StructVariant(i, fs) => V::Map(vec![(V::s(name(*i)), V::Map(fields(fs)?))]),
        S::Dur(secs, nanos) => {
            if dur_to_chrono(*secs, *nanos).is_none() {
                return Ok(V::Null);
            }
            V::Dur(*secs, *nanos)
        }
        S::Ts(secs, nanos, off) => {
            if ts_to_chrono(*secs, *nanos, *off).is_none() {
                return Ok(V::Null);
            }
            V::Ts(*secs, *nanos, *off)
        }
        // the text form, as serde_json (a human-readable format like this one) receives it
        S::Net(kind, bits) => {
            let ip = std::net::Ipv4Addr::from(*bits);
            V::Str(match kind % 3 {
                1 => std::net::SocketAddrV4::new(ip, 8080).to_string(),
                _ => ip.to_string(),
            })
        }
    })
}

fn fields(fs: &[(u8, S)]) -> Result<Vec<(V, V)>, ()> {
    let mut out: Vec<(V, V)> = vec![];
    for (k, v) in fs {
        if matches!(v, S::SkippedField) {
            // a skipped field is not part of the data
            continue;
        }
        let kk = V::s(name(*k));
        let vv = shape(v)?;
        if let Some(slot) = out.iter_mut().find(|(k2, _)| same(k2, &kk)) {
            slot.1 = vv;
        } else {
            out.push((kk, vv));
        }
    }
    Ok(out)
}

/// map keys: integers, bools and string-likes keep their kind; everything else has no CEL key
fn key_shape(k: &S) -> Result<V, ()> {
    Ok(match k {
        S::Bool(b) => V::Bool(*b),
        S::I8(v) => V::Int(*v as i64),
        S::I16(v) => V::Int(*v as i64),
        S::I32(v) => V::Int(*v as i64),
        S::I64(v) => V::Int(*v),
        S::U8(v) => V::UInt(*v as u64),
        S::U16(v) => V::UInt(*v as u64),
        S::U32(v) => V::UInt(*v as u64),
        S::U64(v) => V::UInt(*v),
        S::Char(c) => V::Str(c.to_string()),
        S::Str(s) => V::Str(s.clone()),
        S::UnitVariant(i) => V::s(name(*i)),
        S::Some(x) | S::NewtypeStruct(x) => key_shape(x)?,
        S::I128(v) => match v.parse::<i128>().ok().and_then(|x| i64::try_from(x).ok()) {
            Some(x) => V::Int(x),
            None => return Err(()),
        },
        S::U128(v) => match v.parse::<u128>().ok().and_then(|x| u64::try_from(x).ok()) {
            Some(x) => V::UInt(x),
            None => return Err(()),
        },
        _ => return Err(()),
    })
}

fn json_representable(s: &S) -> bool {
    match s {
        S::Bytes(_) | S::I128(_) | S::U128(_) | S::Dur(..) | S::Ts(..) => false,
        S::Some(x) | S::NewtypeStruct(x) | S::NewtypeVariant(_, x) => json_representable(x),
        S::Seq(xs) | S::Tuple(xs) | S::TupleStruct(xs) | S::TupleVariant(_, xs) => xs.iter().all(json_representable),
        S::Map(es) => {
            // text-distinct keys only
            let mut texts: Vec<String> = vec![];
            for (k, v) in es {
                let Ok(kk) = key_shape(k) else { return false };
                let t = crate::model::eval::show_key(&kk).trim_end_matches('u').to_string();
                let t = match kk {
                    V::UInt(u) => u.to_string(),
                    _ => t,
                };
                if texts.contains(&t) {
                    return false;
                }
                texts.push(t);
                if !json_representable(k) || !json_representable(v) {
                    return false;
                }
            }
            true
        }
        S::Struct(fs) | S::StructVariant(_, fs) => {
            let mut names: Vec<&str> = vec![];
            for (k, v) in fs {
                if names.contains(&name(*k)) || !json_representable(v) {
                    return false;
                }
                names.push(name(*k));
            }
            true
        }
        _ => true,
    }
}

fn depth(s: &S) -> usize {
    match s {
        S::Some(x) | S::NewtypeStruct(x) | S::NewtypeVariant(_, x) => 1 + depth(x),
        S::Seq(xs) | S::Tuple(xs) | S::TupleStruct(xs) | S::TupleVariant(_, xs) => 1 + xs.iter().map(depth).max().unwrap_or(0),
        S::Map(es) => 1 + es.iter().map(|(k, v)| depth(k).max(depth(v))).max().unwrap_or(0),
        S::Struct(fs) | S::StructVariant(_, fs) => 1 + fs.iter().map(|(_, v)| depth(v)).max().unwrap_or(0),
        _ => 0,
    }
}

fn any(s: &S, p: &dyn Fn(&S) -> bool) -> bool {
    if p(s) {
        return true;
    }
    match s {
        S::Some(x) | S::NewtypeStruct(x) | S::NewtypeVariant(_, x) => any(x, p),
        S::Seq(xs) | S::Tuple(xs) | S::TupleStruct(xs) | S::TupleVariant(_, xs) => xs.iter().any(|x| any(x, p)),
        S::Map(es) => es.iter().any(|(k, v)| any(k, p) || any(v, p)),
        S::Struct(fs) | S::StructVariant(_, fs) => fs.iter().any(|(_, v)| any(v, p)),
        _ => false,
    }
}

#[derive(Clone, Debug, Serialize, Deserialize)]
pub struct Case {
    pub data: S,
    /// also go through Context::add_variable
    pub via_context: bool,
}

pub fn check(c: &Case) -> Outcome {
    let data = &c.data;
    let conv = guard(|| cel_interpreter::to_value(AnySer(data)));
    let conv = match conv {
        Err(p) => return fail(format!("to_value({data:?}) {}", p.short())),
        Ok(r) => r,
    };
    let model = shape(data);
    let mut cl: Vec<&'static str> = vec![];
    match (&conv, &model) {
        (Err(_), _) => cl.push(if model.is_ok() { "conversion-failed(allowed)" } else { "unsupported-input-rejected" }),
        (Ok(v), Err(())) => {
            return fail(format!("to_value({data:?}) succeeds with {:?} although no CEL value of the same shape exists (unsupported key kind or out-of-range 128-bit integer)", from_cel(v)));
        }
        (Ok(v), Ok(m)) => {
            let got = from_cel(v);
            if !same(&got, m) {
                return fail(format!("to_value({data:?}) = {got:?}, the value of the same shape is {m:?}"));
            }
            cl.push("converted");
        }
    }
    if c.via_context {
        let r = guard(|| {
            let mut ctx = cel_interpreter::Context::default();
            ctx.add_variable("v", AnySer(data)).map(|_| ctx.get_variable("v").map(|x| from_cel(&x)))
        });
        match (r, &conv) {
            (Err(p), _) => return fail(format!("Context::add_variable({data:?}) {}", p.short())),
            (Ok(Ok(Ok(v))), Ok(direct)) => {
                if !same(&v, &from_cel(direct)) {
                    return fail(format!("Context::add_variable stores {v:?}, to_value gives {:?}", from_cel(direct)));
                }
            }
            (Ok(Err(_)), Err(_)) => {}
            (Ok(other), _) => return fail(format!("Context::add_variable({data:?}) and to_value disagree: {:?} vs {:?}", other, conv.as_ref().map(from_cel))),
        }
    }
    // commutation with serde_json
    if json_representable(data) {
        if let Ok(v) = &conv {
            let ours = guard(|| v.json().map_err(|e| e.to_string()));
            let theirs = serde_json::to_value(AnySer(data));
            match (ours, theirs) {
                (Err(p), _) => return fail(format!("json() of to_value({data:?}) {}", p.short())),
                (Ok(Ok(a)), Ok(b)) => {
                    if a != b {
                        return fail(format!("to_value({data:?}).json() = {a}, serde_json::to_value gives {b}"));
                    }
                    cl.push("commutes-with-serde_json");
                }
                _ => {}
            }
        }
    }
    let nt = depth(data) >= 2
        || any(data, &|s| matches!(s, S::UnitVariant(_) | S::NewtypeVariant(..) | S::TupleVariant(..) | S::StructVariant(..)))
        || any(data, &|s| matches!(s, S::Map(es) if es.iter().any(|(k, _)| !matches!(k, S::Str(_)))))
        || any(data, &|s| matches!(s, S::I64(i64::MIN | i64::MAX) | S::U64(u64::MAX) | S::I8(i8::MIN) | S::I16(i16::MIN) | S::I32(i32::MIN) | S::I128(_) | S::U128(_)))
        || any(data, &|s| matches!(s, S::Some(x) if matches!(**x, S::Some(_) | S::None)));
    if any(data, &|s| matches!(s, S::Map(es) if es.iter().any(|(k, _)| key_shape(k).is_err()))) {
        cl.push("unsupported-key-kind");
    }
    if any(data, &|s| matches!(s, S::Dur(..) | S::Ts(..))) {
        cl.push("time-wrapper");
    }
    pass_n(nt, cl)
}

#[derive(Clone, Debug, Serialize, Deserialize)]
pub struct JsonCase {
    pub doc: String,
}

pub fn check_json(c: &JsonCase) -> Outcome {
    let j: serde_json::Value = match serde_json::from_str(&c.doc) {
        Ok(j) => j,
        Err(_) => return Outcome::Skip("generator-produced-invalid-json"),
    };
    let r = guard(|| cel_interpreter::to_value(&j).map(|v| v.json().map_err(|e| e.to_string())));
    match r {
        Err(p) => fail(format!("to_value / json of {} {}", c.doc, p.short())),
        Ok(Err(e)) => fail(format!("to_value({}) fails: {e}", c.doc)),
        Ok(Ok(Err(e))) => fail(format!("json() of to_value({}) fails: {e}", c.doc)),
        Ok(Ok(Ok(back))) => {
            if back == j {
                pass_n(j.is_array() || j.is_object(), vec!["json-document-round-trip"])
            } else {
                fail(format!("to_value({}).json() = {back}", c.doc))
            }
        }
    }
}

fn gen_scalar(u: &mut Chooser) -> S {
    match u.below(17) {
        0 => S::Bool(u.flip()),
        1 => S::I8(*u.pick(&[0i8, 1, -1, i8::MIN, i8::MAX])),
        2 => S::I16(*u.pick(&[0i16, 1, -1, i16::MIN, i16::MAX, 256])),
        3 => S::I32(*u.pick(&[0i32, 1, -1, i32::MIN, i32::MAX, 65536])),
        4 => S::I64(gen_i64(u)),
        5 => S::I128(u.pick(&["0", "-1", "9223372036854775807", "9223372036854775808", "-9223372036854775809", "170141183460469231731687303715884105727", "-170141183460469231731687303715884105728"]).to_string()),
        6 => S::U8(*u.pick(&[0u8, 1, 255, 128])),
        7 => S::U16(*u.pick(&[0u16, 1, u16::MAX, 256])),
        8 => S::U32(*u.pick(&[0u32, 1, u32::MAX, 1 << 31])),
        9 => S::U64(gen_u64(u)),
        10 => S::U128(u.pick(&["0", "1", "18446744073709551615", "18446744073709551616", "340282366920938463463374607431768211455"]).to_string()),
        11 => S::F32(F(*u.pick(&[0.0f64, -0.0, 1.5, 0.1, 3.4028234663852886e38, f64::NAN, f64::INFINITY, 16777217.0, 1e-40]))),
        12 => S::F64(F(gen_f64(u))),
        13 => S::Char(*u.pick(&['a', 'é', '𝄞', '\0', '"'])),
        14 => S::Str(gen_string(u)),
        15 => S::Bytes(crate::gen::gen_bytes(u)),
        _ if u.chance(1, 4) => S::Net(u.below(3) as u8, *u.pick(&[0u32, 0x7f000001, 0xc0a80007, u32::MAX, 0x0a000001])),
        _ => match u.below(4) {
            0 => S::None,
            1 => S::Unit,
            2 => S::UnitStruct,
            _ => S::UnitVariant(u.below(8) as u8),
        },
    }
}

fn gen_key(u: &mut Chooser) -> S {
    match u.below(12) {
        0 | 1 | 2 => S::Str(u.pick(&["a", "b", "k", "1", "true", "", "é"]).to_string()),
        3 => S::I64(*u.pick(&[0i64, 1, -1, i64::MAX, i64::MIN])),
        4 => S::U64(*u.pick(&[0u64, 1, u64::MAX])),
        5 => S::Bool(u.flip()),
        6 => S::Char('c'),
        7 => u.pick(&[S::I8(1), S::U8(1), S::I32(-5), S::U16(7)]).clone(),
        8 => S::UnitVariant(u.below(8) as u8),
        9 => S::NewtypeStruct(Box::new(S::Str("nt".into()))),
        10 => S::Some(Box::new(S::I64(3))),
        // unsupported key kinds
        _ => u.pick(&[S::F64(F(1.5)), S::F32(F(2.0)), S::Bytes(vec![1]), S::None, S::Unit, S::Seq(vec![]), S::Map(vec![]), S::UnitStruct, S::Tuple(vec![S::I8(1)]), S::NewtypeVariant(0, Box::new(S::I8(1))), S::Struct(vec![])]).clone(),
    }
}

pub fn gen_s(u: &mut Chooser, depth: usize) -> S {
    if depth == 0 {
        return gen_scalar(u);
    }
    let d = depth - 1;
    match u.below(16) {
        0 | 1 | 2 => gen_scalar(u),
        3 => S::Some(Box::new(gen_s(u, d))),
        4 => S::NewtypeStruct(Box::new(gen_s(u, d))),
        5 => S::NewtypeVariant(u.below(8) as u8, Box::new(gen_s(u, d))),
        6 => S::Seq((0..u.below(4)).map(|_| gen_s(u, d)).collect()),
        7 => S::Tuple((0..u.below(4)).map(|_| gen_s(u, d)).collect()),
        8 => S::TupleStruct((0..u.below(4)).map(|_| gen_s(u, d)).collect()),
        9 => S::TupleVariant(u.below(8) as u8, (0..u.below(4)).map(|_| gen_s(u, d)).collect()),
        10 | 11 => S::Map((0..u.below(4)).map(|_| (gen_key(u), gen_s(u, d))).collect()),
        12 => S::Struct((0..u.below(4)).map(|_| (u.below(8) as u8, if u.chance(1, 5) { S::SkippedField } else { gen_s(u, d) })).collect()),
        13 => S::StructVariant(u.below(8) as u8, (0..u.below(4)).map(|_| (u.below(8) as u8, if u.chance(1, 5) { S::SkippedField } else { gen_s(u, d) })).collect()),
        14 => {
            let ns = match u.below(4) {
                0 => *u.pick(&[0i128, 1, -1, 1_500_000_000, -1_500_000_000, i64::MAX as i128, i64::MIN as i128 + 1, 999_999_999, -999_999_999, -1_000_000_000, -5_400_000_000_000, -604_800_000_000_000, 1_000_000_000, -2_000_000_000, 3_000_000_000_000_000_000, -3_000_000_000_000_000_000]),
                1 => (u.range(-100_000, 100_000) as i128) * 1_000_000_000,
                // beyond 64-bit nanoseconds (chrono holds up to +-i64::MAX milliseconds): the wrapper still carries the duration it was given
                2 => *u.pick(&[9_223_372_036_854_775_808i128, -9_223_372_036_854_775_810, 9_223_372_037_000_000_001, -9_223_372_037_145_224_190, 31_556_952_000_000_000_000_123, -31_556_952_000_000_000_000_123, 9_223_372_036_854_775_807_000_000, -9_223_372_036_854_775_807_000_000]),
                _ => u.log_i64() as i128,
            };
            match V::dur_ns(ns) {
                V::Dur(s, n) => S::Dur(s, n),
                _ => S::Unit,
            }
        }
        _ => {
            let secs = match u.below(3) {
                0 => *u.pick(&[0i64, -1, 1685232000, -62135596800, 253402300799]),
                _ => u.range(-62135596800, 253402300799),
            };
            S::Ts(secs, *u.pick(&[0u32, 1, 999_999_999, 123_000_000]), u.range(-840, 840) as i32 * 60)
        }
    }
}

fn gen_json(u: &mut Chooser, depth: usize) -> serde_json::Value {
    use serde_json::Value as J;
    let k = if depth == 0 { u.below(6) } else { u.below(8) };
    match k {
        0 => J::Null,
        1 => J::Bool(u.flip()),
        2 => J::from(gen_i64(u)),
        3 => J::from(gen_u64(u)),
        4 => {
            let f = gen_f64(u);
            if f.is_finite() {
                J::from(f)
            } else {
                J::from(0.25)
            }
        }
        5 => J::String(gen_string(u)),
        6 => J::Array((0..u.below(4)).map(|_| gen_json(u, depth - 1)).collect()),
        _ => {
            let mut m = serde_json::Map::new();
            for _ in 0..u.below(4) {
                m.insert(gen_string(u), gen_json(u, depth - 1));
            }
            J::Object(m)
        }
    }
}

pub fn run(r: &mut Runner) {
    r.rule = "cases: values of a recursive 'any serde type' (depth <= 5) whose Serialize implementation calls every method of the Serializer interface - all integer widths incl. 128-bit, f32 / f64, char, str, bytes, none / some, unit, unit struct, \
              the four variant kinds, newtype struct, seq, tuple, tuple struct, maps with keys of every kind including unsupported ones, structs, the Duration / Timestamp wrappers, and std::net address types (whose Serialize asks is_human_readable) - with boundary-biased scalars; plus serde_json documents from a JSON generator. \
              Oracle: conversion never panics; if it succeeds the result equals the shape model (signed -> int, unsigned -> uint, f32 widened, char/str -> string, bytes -> bytes, none/unit -> null, some/newtype -> inner, unit variant -> its name, \
              seq/tuple -> list, map/struct -> map keyed by key or field name with later duplicates overwriting, data-carrying variants -> single-entry map, wrappers -> the same duration / instant and offset); inputs with no same-shape CEL value (unsupported key kinds, \
              out-of-range 128-bit integers) must fail; Context::add_variable agrees with to_value; for JSON-representable inputs to_value(x).json() == serde_json::to_value(x); every serde_json document round trips. \
              Non-trivial: nesting >= 2, an enum variant, a non-string key, an extreme integer, nested options, or an unsupported key kind; distinct by input."
        .into();
    let n = r.tier.n(60_000, 1_500_000);
    r.random("any-serde-values", 300, n, |u: &mut Chooser| {
        let d = 1 + u.below(5);
        Case { data: gen_s(u, d), via_context: u.chance(1, 4) }
    }, check);
    r.random("json-documents", 200, n / 2, |u: &mut Chooser| {
        let d = u.below(5);
        JsonCase { doc: gen_json(u, d).to_string() }
    }, check_json);
    // per-method call counts prove that every Serializer method was exercised (this shard's share)
    let methods: std::collections::BTreeMap<String, u64> = METHODS.with(|h| h.borrow().iter().map(|(k, v)| (k.to_string(), *v)).collect());
    r.extra.insert("serializer_methods_called_in_shard_0".into(), serde_json::json!(methods));
    r.expect_class("unsupported-key-kind", 500);
    r.expect_class("commutes-with-serde_json", 5000);
    r.expect_class("time-wrapper", 500);
}
