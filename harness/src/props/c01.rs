//! C01 — compiling any source text ends in a program or positioned errors.

use crate::chooser::Chooser;
use crate::engine::{fail, guard, pass_n, Outcome, Runner};
use crate::gen::tokens::{expr_tokens, gen_token, max_bracket_depth, necessary_conditions, render_tokens, token_alphabet, Recogniser, Tok};
use crate::gen::untyped::{gen_untyped, Pool};
use cel_interpreter::Program;
use serde::{Deserialize, Serialize};

#[derive(Clone, Debug, Serialize, Deserialize)]
pub enum Case {
    Text { family: u8, src: String },
    Toks { family: u8, ts: Vec<Tok>, seps: Vec<u8> },
    /// compile `base` (a complete expression without comments) first, then the same text with a stray character that is not
    /// CEL whitespace put in front of or behind it: whatever the first compile left behind, the second text is not an expression
    Warm { base: String, prefix: String, suffix: String },
}

pub enum Compiled {
    Ok,
    /// (line, col, rendered, msg) per error, and the rendered ParseErrors
    Errs(Vec<(isize, isize, String, String)>, String),
}

pub fn compile_observed(src: &str) -> Result<Compiled, crate::engine::PanicInfo> {
    guard(|| match Program::compile(src) {
        Ok(p) => {
            // a compiled program can at least report its references and be rendered
            let _ = p.references().variables().len();
            let _ = format!("{p:?}").len();
            Compiled::Ok
        }
        Err(e) => {
            let whole = e.to_string();
            Compiled::Errs(e.errors.iter().map(|x| (x.pos.0, x.pos.1, x.to_string(), x.msg.clone())).collect(), whole)
        }
    })
}

/// oracle parts (1)-(3); returns Ok(accepted?) or the violation
pub fn basic(src: &str) -> Result<bool, String> {
    let show = crate::sut::trunc(&format!("{src:?}"), 300);
    let c = match compile_observed(src) {
        Err(p) => return Err(format!("compile of {show} {}", p.short())),
        Ok(c) => c,
    };
    // the other public entry point accepts exactly the same texts
    match guard(|| Program::try_from(src).is_ok()) {
        Err(p) => return Err(format!("Program::try_from({show}) {}", p.short())),
        Ok(ok2) => {
            if ok2 != matches!(c, Compiled::Ok) {
                return Err(format!("Program::compile and Program::try_from disagree on {show}: compile {} it, try_from {} it", if ok2 { "rejects" } else { "accepts" }, if ok2 { "accepts" } else { "rejects" }));
            }
        }
    }
    match c {
        Compiled::Ok => Ok(true),
        Compiled::Errs(errs, whole) => {
            if errs.is_empty() {
                return Err(format!("compile of {show} failed with an empty error list"));
            }
            if whole.trim().is_empty() {
                return Err(format!("compile of {show}: ParseErrors renders to empty text"));
            }
            let lines: Vec<&str> = src.split('\n').collect();
            for (line, col, text, msg) in &errs {
                if text.trim().is_empty() || msg.trim().is_empty() {
                    return Err(format!("compile of {show}: an error renders to empty text"));
                }
                if *line < 0 || *col < 0 {
                    return Err(format!("compile of {show}: negative error position {line}:{col} ({msg})"));
                }
                if *line as usize > lines.len() {
                    return Err(format!("compile of {show}: error line {line} beyond the {} lines of the source ({msg})", lines.len()));
                }
                if *line >= 1 {
                    // columns are counted in code points today; the byte length is the weakest reading of "not beyond the source"
                    let l = lines[*line as usize - 1];
                    if *col as usize > l.len() + 1 {
                        return Err(format!("compile of {show}: error column {col} beyond line {line} of {} bytes ({msg})", l.len()));
                    }
                }
            }
            Ok(false)
        }
    }
}

/// character-level conditions that are safe without knowing the tokens
fn must_reject_text(src: &str) -> Option<&'static str> {
    if src.trim_matches(|c| matches!(c, ' ' | '\t' | '\r' | '\n' | '\u{c}')).is_empty() {
        return Some("empty or whitespace-only source");
    }
    let has_quote = src.contains(|c| matches!(c, '\'' | '"' | '`'));
    let has_comment = src.contains("//");
    if has_quote || has_comment {
        return None;
    }
    if src.contains(|c: char| matches!(c, '@' | '#' | '$' | ';' | '~' | '^' | '\\') || (!c.is_ascii() ) || (c.is_control() && !matches!(c, '\t' | '\r' | '\n' | '\u{c}'))) {
        return Some("contains a character that no token can contain outside literals");
    }
    let b = src.as_bytes();
    for (i, c) in b.iter().enumerate() {
        let prev = if i > 0 { b[i - 1] } else { b' ' };
        let next = *b.get(i + 1).unwrap_or(&b' ');
        match c {
            b'=' => {
                if !(next == b'=' || matches!(prev, b'=' | b'!' | b'<' | b'>')) {
                    return Some("a single '='");
                }
            }
            b'|' => {
                if !(next == b'|' || prev == b'|') {
                    return Some("a single '|'");
                }
            }
            b'&' => {
                if !(next == b'&' || prev == b'&') {
                    return Some("a single '&'");
                }
            }
            _ => {}
        }
    }
    let mut stack = vec![];
    for c in b {
        match c {
            b'(' | b'[' | b'{' => stack.push(*c),
            b')' | b']' | b'}' => {
                let want = match c {
                    b')' => b'(',
                    b']' => b'[',
                    _ => b'{',
                };
                if stack.pop() != Some(want) {
                    return Some("unbalanced bracket");
                }
            }
            _ => {}
        }
    }
    if !stack.is_empty() {
        return Some("unclosed bracket");
    }
    None
}

/// cap bracket nesting at 32 by blanking the openers that would exceed it (keeps the case inside the quantifier)
pub fn cap_nesting(src: &str) -> String {
    let mut d = 0usize;
    src.chars()
        .map(|c| match c {
            '(' | '[' | '{' => {
                if d >= 32 {
                    ' '
                } else {
                    d += 1;
                    c
                }
            }
            ')' | ']' | '}' => {
                d = d.saturating_sub(1);
                c
            }
            c => c,
        })
        .collect()
}

const FAMILIES: [&str; 10] = ["random-chars", "random-tokens", "valid-expression", "token-mutation", "char-truncation", "single-char", "one-token", "two-tokens", "macro-misuse", "fixed"];

pub fn check(c: &Case) -> Outcome {
    match c {
        Case::Warm { base, prefix, suffix } => {
            let accepted = match basic(base) {
                Ok(a) => a,
                Err(e) => return fail(e),
            };
            if !accepted {
                return Outcome::Skip("base-text-not-accepted");
            }
            let src = format!("{prefix}{base}{suffix}");
            match basic(&src) {
                Err(e) => fail(e),
                Ok(true) => fail(format!("{src:?} was accepted as a program (right after {base:?} had been compiled): the stray character in front of / behind the expression belongs to no token and is not CEL whitespace")),
                Ok(false) => pass_n(true, vec!["stray-character-around-a-compiled-expression", "rejected"]),
            }
        }
        Case::Text { family, src } => {
            let fam = FAMILIES[*family as usize];
            let accepted = match basic(src) {
                Ok(a) => a,
                Err(e) => return fail(e),
            };
            if accepted {
                if let Some(why) = must_reject_text(src) {
                    return fail(format!("{:?} was accepted as a program although it is not one complete expression: {why}", src));
                }
            }
            let mut cl = vec![fam, if accepted { "accepted" } else { "rejected" }];
            if !src.is_ascii() {
                cl.push("non-ascii");
            }
            if src.len() > 1024 {
                cl.push("longer-than-1KiB");
            }
            pass_n(!accepted || src.len() >= 5, cl)
        }
        Case::Toks { family, ts, seps } => {
            let fam = FAMILIES[*family as usize];
            let src = render_tokens(ts, seps);
            let accepted = match basic(&src) {
                Ok(a) => a,
                Err(e) => return fail(e),
            };
            let quotes = ts.iter().filter(|t| matches!(t, Tok::Quote(_))).count();
            let mut cl = vec![fam, if accepted { "accepted" } else { "rejected" }];
            if quotes == 0 {
                let grammatical = Recogniser::new(ts).accepts();
                if accepted && !grammatical {
                    return fail(format!("{:?} was accepted as a program, but its token sequence {:?} is not derivable from CEL's `start : expr EOF`", src, ts.iter().map(|t| t.text()).collect::<Vec<_>>()));
                }
                if accepted {
                    if let Err(why) = necessary_conditions(ts) {
                        return fail(format!("{:?} was accepted as a program: {why}", src));
                    }
                }
                if *family == 2 && !grammatical {
                    // generator / recogniser self-check: grammar-generated expressions must be grammatical
                    panic!("recogniser rejects a grammar-generated expression: {src}");
                }
                cl.push(if grammatical { "grammatical" } else { "ungrammatical" });
            } else if quotes == 1 && ts.iter().all(|t| !matches!(t, Tok::Str(_) | Tok::Bytes(_) | Tok::EscIdent(_))) && matches!(ts.iter().find(|t| matches!(t, Tok::Quote(_))), Some(Tok::Quote(q)) if q.len() == 1) {
                // exactly one quote / backslash / backtick character in the whole source: an unterminated literal or unknown character
                if accepted {
                    return fail(format!("{:?} was accepted although it contains a single unmatched quote / backslash / backtick", src));
                }
                cl.push("single-unmatched-quote");
            } else {
                cl.push("quotes-make-token-view-unreliable");
            }
            if max_bracket_depth(ts) >= 16 {
                cl.push("nesting>=16");
            }
            pass_n(!accepted || ts.len() >= 3, cl)
        }
    }
}

fn gen_chars(u: &mut Chooser) -> String {
    let alphabet: Vec<char> = "()[]{}.,-!?:+*/%<>=&|'\"\\`0123456789abcxyzu_eEr \t\n\r\u{c}@#$;~^\u{0}\u{1}\u{7f}äé日𝄞\u{85}\u{2028}".chars().collect();
    // log-uniform length 0..4096
    let w = u.below(13);
    let len = if w == 0 { 0 } else { (1usize << (w - 1)) + u.below(1usize << (w - 1)) };
    let mut s = String::new();
    let mode = u.below(3);
    while s.len() < len.min(4090) {
        match mode {
            0 => s.push(*u.pick(&alphabet)),
            1 => {
                // token-ish soup
                s.push_str(&gen_token(u).text());
                if u.flip() {
                    s.push(' ');
                }
            }
            _ => {
                if u.chance(1, 8) {
                    s.push(*u.pick(&alphabet));
                } else {
                    s.push(*u.pick(&['a', '1', ' ', '+', '(', ')', '.', '[', ']', '\'', 'x', ',']));
                }
            }
        }
    }
    let s = cap_nesting(&s);
    let mut s = s;
    while s.len() > 4096 {
        s.pop();
    }
    s
}

/// macro calls whose arguments are themselves invalid macro uses or undecodable literals (errors inside errors)
fn gen_macro_misuse(u: &mut Chooser, depth: usize) -> String {
    let leaf = |u: &mut Chooser| -> String { u.pick(&["a", "1", "a.b", "b'\\u0041'", "'\\ud800'", "x", "true", "[1, 2]", "a.b.c", "'s'", "b'\\U00000041'", "'\\U00110000'", "-1", "f(a)", "{}"]).to_string() };
    if depth == 0 {
        return leaf(u);
    }
    // (arguments sometimes start on a new line: positions of errors found out of source order still have to be real)
    let g = |u: &mut Chooser| {
        let inner = gen_macro_misuse(u, depth - 1);
        if u.chance(1, 4) {
            format!("\n {inner}")
        } else {
            inner
        }
    };
    match u.below(12) {
        0 => format!("has({})", g(u)),
        1 => format!("has({}.f)", g(u)),
        2 => format!("{}.all({}, {})", g(u), g(u), g(u)),
        3 => format!("{}.exists({}, {})", g(u), g(u), g(u)),
        4 => format!("{}.exists_one({}, {})", g(u), g(u), g(u)),
        5 => format!("{}.map({}, {})", g(u), g(u), g(u)),
        6 => format!("{}.map({}, {}, {})", g(u), g(u), g(u), g(u)),
        7 => format!("{}.filter({}, {})", g(u), g(u), g(u)),
        8 => format!("{}.all({})", g(u), g(u)),
        9 => format!("[{}, {}]", g(u), g(u)),
        10 => format!("{} + {}", g(u), g(u)),
        _ => leaf(u),
    }
}

fn valid_tokens(u: &mut Chooser, pool: &Pool) -> Vec<Tok> {
    let depth = 1 + u.below(6);
    let e = gen_untyped(u, depth, pool);
    let mut ts = vec![];
    expr_tokens(&e, &mut ts);
    ts
}

fn cap_tokens(mut ts: Vec<Tok>) -> Vec<Tok> {
    // keep bracket nesting <= 32 and the source <= 4 KiB
    let mut d = 0usize;
    for t in ts.iter_mut() {
        if let Tok::P(s) = t {
            match s.as_str() {
                "(" | "[" | "{" => {
                    if d >= 32 {
                        *t = Tok::Ident("a".into());
                    } else {
                        d += 1;
                    }
                }
                ")" | "]" | "}" => d = d.saturating_sub(1),
                _ => {}
            }
        }
    }
    while ts.iter().map(|t| t.text().len() + 7).sum::<usize>() > 4096 {
        ts.pop();
    }
    ts
}

pub fn run(r: &mut Runner) {
    r.rule = "cases: UTF-8 sources <= 4 KiB with bracket nesting <= 32: (a) random characters (punctuation, quotes, backslashes, digits, letters, every whitespace kind, control and non-ASCII \
              characters; log-uniform length), (b) random token lists (valid and invalid tokens, <= 64 tokens), (c) grammar-generated valid expressions rendered with random whitespace / newlines / comments, \
              (d) one token-level insert / delete / replace / truncate of (c) and character-level truncations, (e) macro calls whose arguments are invalid macro uses or undecodable literals, (f) a valid expression compiled first and then again with a stray non-whitespace character in front of / behind it; multi-line triple-quoted literals with late decoding errors; exhaustively the empty string, every single ASCII character, every token alone and every two-token sequence. \
              Oracle: no panic / abort; Ok xor a non-empty error list; every error renders to non-empty text with a position not beyond the source; Ok implies that the token sequence is derivable \
              from CEL.g4's start rule (independent token-level recogniser) and satisfies the cheap necessary conditions. Non-trivial: rejected, or accepted with >= 3 tokens; distinct by source."
        .into();
    r.assumptions = vec![
        "token lists are rendered with whitespace between all tokens, so the lexer sees the generator's token boundaries".into(),
        "sources containing a lone quote / backslash / backtick token are only checked for termination, error shape and positions (plus: exactly one such character must be rejected)".into(),
        "8 MiB stack; nesting <= 32 by construction".into(),
    ];
    // fixed lists
    let mut fixed: Vec<Case> = vec![Case::Text { family: 5, src: String::new() }];
    for c in 0u8..128 {
        fixed.push(Case::Text { family: 5, src: (c as char).to_string() });
    }
    for s in [" ", "\n", "\t\r\n", "//", "// c", "ä", "1 +", "f(1,", "\"abc", "{1:", "@", "1 2", "a b", "(1", "1)", "[", "a.", "a ? b", "a ? b :", "'''", "b'", "1..2", "0x", "1e", "1u u", "a..b", "a.(b)", "a[", "x.y(", "!", "-", "!-a", "-!a", "in", "a in", "?.", "a.?b", "a[?0]", "{?a: 1}", "T{?f: 1}", "[?a]", "[,]", "{,}", "T{,}", "a.b{}", ".a", ".a()", "..a", "a.b.c{x: 1}.d", "`a`", "a.`b c`", "has(a)", "x.map(1, 2)", "x.map(a.b, 2)", "9223372036854775808", "-9223372036854775809", "1e999", "'\\q'", "'\\400'", "'\\ud800'", "b'\\u0041'", "\u{feff}1"] {
        fixed.push(Case::Text { family: 5, src: s.to_string() });
    }
    // multi-line literals whose decoding fails late: the reported position must still lie inside the source
    for q in ["'''", "\"\"\""] {
        for pre in ["", "b", "B"] {
            for lines in ["first\n", "a\n\nb\n", "\r\n", "x\n    "] {
                for esc in ["\\ud800", "\\U00110000", "\\u0041", "\\UFFFFFFFF", "\\udfff tail"] {
                    let l = format!("{pre}{q}{lines}second line {esc}{q}");
                    fixed.push(Case::Text { family: 9, src: l.clone() });
                    fixed.push(Case::Text { family: 9, src: format!("1 +\n {l}") });
                    fixed.push(Case::Text { family: 9, src: format!("[{l},\n{l}]") });
                }
            }
        }
    }
    for s in ["-0x8000000000000000", "- 0x8000000000000000", "-0x08000000000000000", "[1].all(2,\n [3].all(4, true))", "x.map(1,\n\n y.map(2, 3),\n z.filter(4, 5))", "has(\n has(\n a))", "1U", "0xFFU", "[1u, 2U][1]", "has(has(a))", "[1, 2].all(b'\\u0041', true)", "x.exists(has(y), true)", "has(x.all(1, true))", "x.map(has(1), has(2), has(3))"] {
        fixed.push(Case::Text { family: 9, src: s.to_string() });
    }
    r.sweep("fixed-and-single-characters", fixed, check);
    let alpha = token_alphabet();
    let na = alpha.len() as u64;
    {
        let a = alpha.clone();
        r.sweep_fn("one-token", na, move |i| Case::Toks { family: 6, ts: vec![a[i as usize].clone()], seps: vec![] }, check);
        let a = alpha.clone();
        r.sweep_fn("two-tokens", na * na, move |i| Case::Toks { family: 7, ts: vec![a[(i / na) as usize].clone(), a[(i % na) as usize].clone()], seps: vec![] }, check);
    }
    if r.tier == crate::engine::Tier::Thorough {
        // every three-token sequence over the plain alphabet
        let a = alpha.clone();
        r.sweep_fn("three-tokens", na * na * na, move |i| Case::Toks { family: 7, ts: vec![a[(i / na / na) as usize].clone(), a[((i / na) % na) as usize].clone(), a[(i % na) as usize].clone()], seps: vec![] }, check);
    }
    let n = r.tier.n(20_000, 400_000);
    r.random("random-characters", 2100, n / 2, |u| Case::Text { family: 0, src: gen_chars(u) }, check);
    r.random(
        "random-tokens",
        140,
        n,
        |u| {
            let len = u.below(65);
            let ts: Vec<Tok> = (0..len).map(|_| gen_token(u)).collect();
            let seps: Vec<u8> = (0..len).map(|_| u.below(6) as u8).collect();
            Case::Toks { family: 1, ts: cap_tokens(ts), seps }
        },
        check,
    );
    let pool = Pool::c02();
    r.random(
        "valid-expressions",
        700,
        n,
        |u| {
            let ts = cap_tokens(valid_tokens(u, &pool));
            // capping may break validity; only uncapped lists are claimed valid
            let seps: Vec<u8> = (0..ts.len()).map(|_| u.below(6) as u8).collect();
            let family = if max_bracket_depth(&ts) < 32 && ts.iter().map(|t| t.text().len() + 7).sum::<usize>() < 4000 { 2 } else { 1 };
            Case::Toks { family, ts, seps }
        },
        check,
    );
    r.random(
        "token-mutations",
        700,
        n,
        |u| {
            let mut ts = valid_tokens(u, &pool);
            if ts.is_empty() {
                ts.push(Tok::Int("1".into()));
            }
            let at = u.below(ts.len());
            match u.below(4) {
                0 => ts.insert(at, gen_token(u)),
                1 => {
                    ts.remove(at);
                }
                2 => ts[at] = gen_token(u),
                _ => ts.truncate(at),
            }
            let seps: Vec<u8> = (0..ts.len()).map(|_| u.below(6) as u8).collect();
            Case::Toks { family: 3, ts: cap_tokens(ts), seps }
        },
        check,
    );
    r.random(
        "char-truncations",
        700,
        n / 2,
        |u| {
            let ts = cap_tokens(valid_tokens(u, &pool));
            let src = render_tokens(&ts, &[]);
            let mut cut = u.below(src.len() + 1);
            while !src.is_char_boundary(cut) {
                cut -= 1;
            }
            Case::Text { family: 4, src: src[..cut].to_string() }
        },
        check,
    );
    r.random("macro-misuse", 60, n / 4, |u| { let d = 1 + u.below(3); Case::Text { family: 8, src: gen_macro_misuse(u, d) } }, check);
    r.random(
        "stray-character-around-a-compiled-expression",
        700,
        n / 4,
        |u| {
            let ts = cap_tokens(valid_tokens(u, &pool));
            let base = render_tokens(&ts, &[]);
            let strays = ["\u{b}", "\u{85}", "\u{a0}", "\u{2028}", "\u{2029}", "\u{3000}", "\u{1680}", "\u{200b}", "\u{0}", "@", ";", "\u{1c}", "\u{feff}"];
            let (mut prefix, mut suffix) = (String::new(), String::new());
            match u.below(3) {
                0 => suffix = u.pick(&strays).to_string(),
                1 => prefix = u.pick(&strays).to_string(),
                _ => {
                    prefix = u.pick(&strays).to_string();
                    suffix = u.pick(&strays).to_string();
                }
            }
            // optionally with ordinary whitespace between the expression and the stray character
            if u.flip() {
                suffix = format!(" {suffix}");
            }
            Case::Warm { base, prefix, suffix }
        },
        check,
    );
    r.expect_class("grammatical", 10_000);
    r.expect_class("ungrammatical", 10_000);
    r.expect_class("non-ascii", 1000);
    r.expect_class("nesting>=16", 100);
}
