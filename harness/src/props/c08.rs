//! C08 — 64-bit integer arithmetic is exact or reports overflow.

use crate::chooser::Chooser;
use crate::engine::{fail, pass, pass_n, Outcome, Runner};
use crate::model::num::{f64_boundary, i64_boundary, u64_boundary};
use crate::model::{lit, ErrClass, F, V};
use crate::sut::{self, Ran, R};
use serde::{Deserialize, Serialize};

#[derive(Clone, Debug, Serialize, Deserialize)]
pub enum Opnd {
    I(i64),
    U(u64),
    D(F),
}

impl Opnd {
    fn v(&self) -> V {
        match self {
            Opnd::I(i) => V::Int(*i),
            Opnd::U(u) => V::UInt(*u),
            Opnd::D(f) => V::Float(*f),
        }
    }
    fn big(&self) -> Option<i128> {
        match self {
            Opnd::I(i) => Some(*i as i128),
            Opnd::U(u) => Some(*u as i128),
            Opnd::D(_) => None,
        }
    }
}

/// form 0: literals (negative ones parenthesised); 1: context variables; 2: bare signed literals
#[derive(Clone, Debug, Serialize, Deserialize)]
pub struct Bin {
    pub a: Opnd,
    pub b: Opnd,
    pub op: char,
    pub form: u8,
}

#[derive(Clone, Debug, Serialize, Deserialize)]
pub struct Neg {
    pub a: Opnd,
    pub form: u8,
}

pub const OPS: [char; 5] = ['+', '-', '*', '/', '%'];

#[derive(Debug, Clone)]
pub enum Exp {
    Val(V),
    Overflow,
    ZeroDiv,
    AnyError,
}

/// the specification: exact arithmetic in i128, then a range test
pub fn expected(a: &Opnd, b: &Opnd, op: char) -> Exp {
    let (lo, hi, mk): (i128, i128, fn(i128) -> V) = match (a, b) {
        (Opnd::I(_), Opnd::I(_)) => (i64::MIN as i128, i64::MAX as i128, |x| V::Int(x as i64)),
        (Opnd::U(_), Opnd::U(_)) => (0, u64::MAX as i128, |x| V::UInt(x as u64)),
        _ => return Exp::AnyError,
    };
    let (x, y) = (a.big().unwrap(), b.big().unwrap());
    let r = match op {
        '+' => x + y,
        '-' => x - y,
        '*' => match x.checked_mul(y) {
            Some(r) => r,
            None => return Exp::Overflow,
        },
        '/' => {
            if y == 0 {
                return Exp::ZeroDiv;
            }
            x / y
        }
        '%' => {
            if y == 0 {
                return Exp::ZeroDiv;
            }
            // the remainder of the most negative int by -1 counts as overflow (as in cel-go)
            if x == i64::MIN as i128 && y == -1 && lo < 0 {
                return Exp::Overflow;
            }
            x % y
        }
        _ => unreachable!(),
    };
    if r < lo || r > hi {
        Exp::Overflow
    } else {
        Exp::Val(mk(r))
    }
}

fn bare(v: &V) -> String {
    match v {
        V::Int(i) => i.to_string(),
        V::UInt(u) => format!("{u}u"),
        V::Float(f) => format!("{:?}", f.0),
        _ => unreachable!(),
    }
}

pub fn matches(exp: &Exp, got: &R) -> bool {
    match (exp, got) {
        (Exp::Val(v), R::Val(g)) => crate::model::same(v, g),
        (Exp::Overflow, R::Err(ErrClass::Overflow, _)) => true,
        (Exp::ZeroDiv, R::Err(ErrClass::ZeroDivisor, _)) => true,
        (Exp::AnyError, R::Err(..)) => true,
        _ => false,
    }
}

fn near_edge(x: i128, lo: i128, hi: i128) -> bool {
    x - lo < 1024 || hi - x < 1024
}

fn classify(c: &Bin, exp: &Exp) -> (bool, &'static str) {
    match exp {
        Exp::Overflow => (true, "overflow"),
        Exp::ZeroDiv => (true, "zero-divisor"),
        Exp::AnyError => (true, "mixed-types"),
        Exp::Val(v) => {
            let (lo, hi) = if matches!(v, V::Int(_)) { (i64::MIN as i128, i64::MAX as i128) } else { (0, u64::MAX as i128) };
            let r = match v {
                V::Int(i) => *i as i128,
                V::UInt(u) => *u as i128,
                _ => 0,
            };
            let (x, y) = (c.a.big().unwrap_or(0), c.b.big().unwrap_or(0));
            if near_edge(r, lo, hi) && lo < 0 {
                (true, "exact-near-boundary")
            } else if (c.op == '/' || c.op == '%') && (y == 1 || y == -1 || (x < 0) != (y < 0)) {
                (true, "div-rem-sign-or-unit")
            } else if near_edge(r, lo, hi) {
                (true, "exact-near-boundary")
            } else {
                (false, "exact-plain")
            }
        }
    }
}

pub fn check_bin(c: &Bin) -> Outcome {
    let (av, bv) = (c.a.v(), c.b.v());
    let (src, vars) = match c.form {
        0 => (format!("{} {} {}", lit::lit(&av).unwrap(), c.op, lit::lit(&bv).unwrap()), vec![]),
        2 => (format!("{} {} {}", bare(&av), c.op, bare(&bv)), vec![]),
        _ => (format!("x {} y", c.op), vec![("x".to_string(), av.clone()), ("y".to_string(), bv.clone())]),
    };
    let exp = expected(&c.a, &c.b, c.op);
    match sut::run_src(&src, &vars) {
        Ran::Done(got) => {
            if matches(&exp, &got) {
                let (nt, class) = classify(c, &exp);
                pass(nt, class)
            } else {
                fail(format!("`{src}` vars={vars:?}: expected {exp:?}, observed {}", got.show()))
            }
        }
        other => fail(format!("`{src}`: expected {exp:?}, observed {}", other.show())),
    }
}

pub fn check_neg(c: &Neg) -> Outcome {
    let av = c.a.v();
    let (src, vars) = match c.form {
        0 => (format!("-({})", bare(&av)), vec![]),
        2 => (format!("-{}", lit::lit(&av).unwrap()), vec![]),
        _ => ("-x".to_string(), vec![("x".to_string(), av.clone())]),
    };
    let exp = match &c.a {
        Opnd::I(i) => match i.checked_neg() {
            Some(n) => Exp::Val(V::Int(n)),
            None => Exp::Overflow,
        },
        Opnd::U(_) => Exp::AnyError,
        Opnd::D(f) => Exp::Val(V::f(-f.0)),
    };
    // `-5` written with a bare literal is the literal -5 negated only in form 0/2 with parentheses;
    // form 2 renders negative operands as "-(-5)" through lit(), so the expectation is the same.
    match sut::run_src(&src, &vars) {
        Ran::Done(got) => {
            if matches(&exp, &got) {
                let nt = matches!(exp, Exp::Overflow | Exp::AnyError) || matches!(c.a, Opnd::I(i) if i < 0 || i > i64::MAX - 1024);
                pass(nt, if matches!(exp, Exp::Overflow) { "negate-overflow" } else { "negate" })
            } else {
                fail(format!("`{src}` vars={vars:?}: expected {exp:?}, observed {}", got.show()))
            }
        }
        other => fail(format!("`{src}`: expected {exp:?}, observed {}", other.show())),
    }
}

/// `(a/b)*b + a%b == a` evaluated *as a program*, plus the sign and magnitude laws of the remainder
pub fn check_law(c: &Bin) -> Outcome {
    let defined = matches!(expected(&c.a, &c.b, '/'), Exp::Val(_)) && matches!(expected(&c.a, &c.b, '%'), Exp::Val(_));
    if !defined {
        return Outcome::Skip("law-undefined");
    }
    let vars = vec![("x".to_string(), c.a.v()), ("y".to_string(), c.b.v())];
    let zero = if matches!(c.a, Opnd::I(_)) { "0" } else { "0u" };
    let mut progs = vec!["(x / y) * y + x % y == x".to_string(), format!("x % y == {zero} || (x % y < {zero}) == (x < {zero})")];
    // |r| < |b| without negating the operands (which could overflow): compare on the side of b's sign
    match &c.b {
        Opnd::U(_) => progs.push("x % y < y".to_string()),
        Opnd::I(b) if *b > 0 => progs.push("x % y < y && 0 - y < x % y".to_string()),
        Opnd::I(b) if *b < 0 && *b != i64::MIN => progs.push("x % y > y && x % y < 0 - y".to_string()),
        _ => {}
    }
    for p in progs.iter() {
        match sut::run_src(p, &vars) {
            Ran::Done(R::Val(V::Bool(true))) => {}
            o => return fail(format!("`{p}` vars={vars:?}: expected true, observed {}", o.show())),
        }
    }
    let (x, y) = (c.a.big().unwrap(), c.b.big().unwrap());
    pass_n(true, vec![if (x < 0) != (y < 0) { "law-mixed-signs" } else { "law-same-signs" }])
}

/// several operations one after the other on the same thread (separate programs, one context): each is exact or an
/// error on its own, whatever was computed before it
#[derive(Clone, Debug, Serialize, Deserialize)]
pub struct Seq {
    pub steps: Vec<Bin>,
}

pub fn check_seq(c: &Seq) -> Outcome {
    let mut errors = 0;
    for (k, st) in c.steps.iter().enumerate() {
        match check_bin(st) {
            Outcome::Fail(m) => return fail(format!("step {k} of {:?}: {m}", c.steps.iter().map(|b| format!("{:?} {} {:?}", b.a.v(), b.op, b.b.v())).collect::<Vec<_>>())),
            Outcome::Pass { classes, .. } => {
                if classes.iter().any(|c| *c == "overflow" || *c == "zero-divisor") {
                    errors += 1;
                }
            }
            _ => {}
        }
    }
    pass_n(errors > 0 && c.steps.len() >= 2, vec![if errors > 0 { "sequence-with-an-error-step" } else { "sequence-all-values" }])
}

/// an unparenthesised chain `a op b op c op d ...` over one operand type: evaluated from the left, every partial result
/// exact or the whole chain an overflow / zero-divisor error at the first step that leaves the range
#[derive(Clone, Debug, Serialize, Deserialize)]
pub struct Chain {
    pub first: Opnd,
    pub rest: Vec<(char, Opnd)>,
    /// 0: literals, 1: variables
    pub form: u8,
}

pub fn check_chain(c: &Chain) -> Outcome {
    // `*` `/` `%` bind tighter than `+` `-`: fold the multiplicative runs first, exactly as the grammar groups them
    let mut terms: Vec<(char, Result<Opnd, Exp>)> = vec![('+', Ok(c.first.clone()))];
    for (op, b) in &c.rest {
        if matches!(op, '*' | '/' | '%') {
            let (sign, last) = terms.pop().unwrap();
            let next = match last {
                Ok(a) => match expected(&a, b, *op) {
                    Exp::Val(V::Int(i)) => Ok(Opnd::I(i)),
                    Exp::Val(V::UInt(u)) => Ok(Opnd::U(u)),
                    e => Err(e),
                },
                Err(e) => Err(e),
            };
            terms.push((sign, next));
        } else {
            terms.push((*op, Ok(b.clone())));
        }
    }
    // then the additive chain from the left; the first failing step (in evaluation order) decides
    let mut exp: Result<Opnd, Exp> = terms[0].1.clone();
    for (op, t) in terms.iter().skip(1) {
        exp = match (exp, t) {
            (Err(e), _) => Err(e),
            (Ok(_), Err(e)) => Err(e.clone()),
            (Ok(a), Ok(b)) => match expected(&a, b, *op) {
                Exp::Val(V::Int(i)) => Ok(Opnd::I(i)),
                Exp::Val(V::UInt(u)) => Ok(Opnd::U(u)),
                e => Err(e),
            },
        };
    }
    let exp = match exp {
        Ok(o) => Exp::Val(o.v()),
        // which of several failing steps is reported is the evaluation order's business (C07); here: an error
        Err(_) => Exp::AnyError,
    };
    let mut vars = vec![];
    let mut src = String::new();
    let mut put = |k: usize, o: &Opnd, src: &mut String| {
        if c.form == 0 {
            src.push_str(&bare(&o.v()));
        } else {
            src.push_str(&format!("x{k}"));
            vars.push((format!("x{k}"), o.v()));
        }
    };
    put(0, &c.first, &mut src);
    for (k, (op, b)) in c.rest.iter().enumerate() {
        src.push_str(&format!(" {op} "));
        put(k + 1, b, &mut src);
    }
    match sut::run_src(&src, &vars) {
        Ran::Done(got) if matches(&exp, &got) => pass_n(c.rest.len() >= 3, vec![if matches!(exp, Exp::AnyError) { "chain-error" } else { "chain-value" }, if c.rest.len() >= 3 { "chain-of-4-or-more" } else { "chain-of-3" }]),
        other => fail(format!("`{src}` vars={vars:?}: evaluated from the left (multiplicative runs first) the chain gives {exp:?}, observed {}", other.show())),
    }
}

/// operands *written* just outside the 64-bit range: the program may be rejected, or fail, or give the exact result of the
/// numbers written - but never a wrapped one
#[derive(Clone, Debug, Serialize, Deserialize)]
pub struct Written {
    pub a: String,
    pub b: String,
    pub op: char,
    pub uint: bool,
}

fn written_value(s: &str) -> i128 {
    let t = s.trim_end_matches('u');
    let (neg, t) = match t.strip_prefix('-') {
        Some(r) => (true, r),
        None => (false, t),
    };
    let m = if let Some(h) = t.strip_prefix("0x") { i128::from_str_radix(h, 16).unwrap() } else { t.parse::<i128>().unwrap() };
    if neg {
        -m
    } else {
        m
    }
}

pub fn check_written(c: &Written) -> Outcome {
    let src = format!("{} {} {}", c.a, c.op, c.b);
    let (x, y) = (written_value(&c.a), written_value(&c.b));
    let exact: Option<i128> = match c.op {
        '+' => Some(x + y),
        '-' => Some(x - y),
        '*' => x.checked_mul(y),
        '/' => (y != 0).then(|| x / y),
        _ => (y != 0).then(|| x % y),
    };
    match sut::run_src(&src, &[]) {
        Ran::NoCompile(_) => pass_n(true, vec!["written-beyond-range:rejected-at-compile-time"]),
        Ran::Done(R::Err(..)) => pass_n(true, vec!["written-beyond-range:execution-error"]),
        Ran::Done(R::Val(V::Int(g))) if !c.uint && exact == Some(g as i128) => pass_n(true, vec!["written-beyond-range:exact"]),
        Ran::Done(R::Val(V::UInt(g))) if c.uint && exact == Some(g as i128) => pass_n(true, vec!["written-beyond-range:exact"]),
        o => fail(format!("`{src}`: the numbers written give {exact:?}; a compile error, an execution error or that exact value are acceptable, observed {} (a wrapped operand or result)", o.show())),
    }
}

fn gen_opnd(u: &mut Chooser, ty: usize) -> Opnd {
    let ib = i64_boundary();
    let ub = u64_boundary();
    match ty {
        0 => Opnd::I(match u.below(4) {
            0 => *u.pick(&ib),
            1 => u.log_i64(),
            2 => u.bits64() as i64,
            _ => u.pick(&ib).wrapping_add(u.range(-3, 3)),
        }),
        1 => Opnd::U(match u.below(4) {
            0 => *u.pick(&ub),
            1 => u.log_u64(),
            2 => u.bits64(),
            _ => u.pick(&ub).wrapping_add(u.range(-3, 3) as u64),
        }),
        _ => Opnd::D(F(match u.below(3) {
            0 => *u.pick(&f64_boundary()),
            1 => u.log_i64() as f64,
            _ => f64::from_bits(u.bits64()),
        })),
    }
}

pub fn run(r: &mut Runner) {
    r.rule = "cases: (a, b, operator, spelling) over i64/u64 boundary sets (exhaustive) and random uniform / log-uniform / near-boundary operands, \
              spelled as literals, bare signed literals and context variables; unary minus over the i64 set; int/uint/double mixtures; unparenthesised chains of 3-7 operands evaluated from the left; sequences of operations on one thread (remainder, quotient, remainder ... over the same operands); operands written just beyond the range. \
              Oracle: i128 arithmetic + range test; overflow and zero-divisor errors recognised by message. Non-trivial: the exact result overflows or lies \
              within 2^10 of a type boundary, the divisor is 0 or ±1, signs are mixed under / or %, or operand types are mixed; distinct by (a, b, op, spelling)."
        .into();
    r.assumptions = vec![
        "error class is read from the rendered message (\"overflow\", \"by zero\")".into(),
        "NaN / infinite doubles cannot be spelled as literals and are supplied as variables only".into(),
    ];
    let ib = i64_boundary();
    let ub = u64_boundary();
    let fb = f64_boundary();
    let (ni, nu) = (ib.len() as u64, ub.len() as u64);
    r.extra.insert("boundary_set_sizes".into(), serde_json::json!({"i64": ni, "u64": nu, "f64": fb.len()}));

    // exhaustive: ordered pairs × 5 operators × 3 spellings
    {
        let ib = ib.clone();
        r.sweep_fn(
            "int-pairs",
            ni * ni * 5 * 3,
            move |i| {
                let form = (i % 3) as u8;
                let op = OPS[((i / 3) % 5) as usize];
                let b = ib[((i / 15) % ni) as usize];
                let a = ib[(i / 15 / ni) as usize];
                Bin { a: Opnd::I(a), b: Opnd::I(b), op, form }
            },
            check_bin,
        );
    }
    {
        let ub = ub.clone();
        r.sweep_fn(
            "uint-pairs",
            nu * nu * 5 * 2,
            move |i| {
                let form = (i % 2) as u8;
                let op = OPS[((i / 2) % 5) as usize];
                let b = ub[((i / 10) % nu) as usize];
                let a = ub[(i / 10 / nu) as usize];
                Bin { a: Opnd::U(a), b: Opnd::U(b), op, form }
            },
            check_bin,
        );
    }
    {
        let mut cases = vec![];
        for a in &ib {
            for form in 0..3u8 {
                cases.push(Neg { a: Opnd::I(*a), form });
            }
        }
        for a in &ub {
            cases.push(Neg { a: Opnd::U(*a), form: 1 });
            cases.push(Neg { a: Opnd::U(*a), form: 0 });
        }
        for f in &fb {
            cases.push(Neg { a: Opnd::D(F(*f)), form: 1 });
        }
        r.sweep("unary-minus", cases, check_neg);
    }
    {
        // mixtures: every ordered pair of distinct numeric types from reduced sets, each operator, variables
        // and (where spellable) literals
        let is: Vec<Opnd> = [0i64, 1, -1, 7, i64::MAX, i64::MIN].iter().map(|x| Opnd::I(*x)).collect();
        let us: Vec<Opnd> = [0u64, 1, 7, u64::MAX].iter().map(|x| Opnd::U(*x)).collect();
        let ds: Vec<Opnd> = [0.0f64, 1.0, -1.5, f64::NAN, f64::INFINITY, 9007199254740992.0].iter().map(|x| Opnd::D(F(*x))).collect();
        let groups = [is, us, ds];
        let mut cases = vec![];
        for (gi, ga) in groups.iter().enumerate() {
            for (gj, gb) in groups.iter().enumerate() {
                if gi == gj {
                    continue;
                }
                for a in ga {
                    for b in gb {
                        for op in OPS {
                            cases.push(Bin { a: a.clone(), b: b.clone(), op, form: 1 });
                            let spellable = |o: &Opnd| !matches!(o, Opnd::D(f) if !f.0.is_finite());
                            if spellable(a) && spellable(b) {
                                cases.push(Bin { a: a.clone(), b: b.clone(), op, form: 0 });
                            }
                        }
                    }
                }
            }
        }
        r.sweep("type-mixtures", cases, check_bin);
    }
    {
        let ib = ib.clone();
        r.sweep_fn("div-rem-laws-int", ni * ni, move |i| Bin { a: Opnd::I(ib[(i / ni) as usize]), b: Opnd::I(ib[(i % ni) as usize]), op: '/', form: 1 }, check_law);
        let ub = ub.clone();
        r.sweep_fn("div-rem-laws-uint", nu * nu, move |i| Bin { a: Opnd::U(ub[(i / nu) as usize]), b: Opnd::U(ub[(i % nu) as usize]), op: '/', form: 1 }, check_law);
    }
    {
        // remainder first, then the quotient, then the remainder again, for every boundary pair (the exhaustive pair sweeps
        // above run `/` before `%`)
        let ib2 = ib.clone();
        r.sweep_fn(
            "int-rem-div-rem-sequences",
            ni * ni,
            move |i| {
                let (a, b) = (Opnd::I(ib2[(i / ni) as usize]), Opnd::I(ib2[(i % ni) as usize]));
                let st = |op: char| Bin { a: a.clone(), b: b.clone(), op, form: 1 };
                Seq { steps: vec![st('%'), st('/'), st('%'), st('*'), st('/')] }
            },
            check_seq,
        );
        let mut cases = vec![];
        let ints = ["9223372036854775806", "9223372036854775807", "9223372036854775808", "9223372036854775809", "0x7fffffffffffffff", "0x8000000000000000", "0x8000000000000001", "-9223372036854775808", "-9223372036854775809", "-0x8000000000000000", "-0x8000000000000001", "18446744073709551616", "0xffffffffffffffff"];
        let uints = ["18446744073709551614u", "18446744073709551615u", "18446744073709551616u", "18446744073709551617u", "0xffffffffffffffffu", "0x10000000000000000u", "99999999999999999999u", "36893488147419103232u"];
        for (set, small, uint) in [(&ints[..], ["0", "1", "2", "-1"], false), (&uints[..], ["0u", "1u", "2u", "3u"], true)] {
            for a in set {
                for b in small.iter().chain(set.iter()) {
                    for op in OPS {
                        cases.push(Written { a: a.to_string(), b: b.to_string(), op, uint });
                        cases.push(Written { a: b.to_string(), b: a.to_string(), op, uint });
                    }
                }
            }
        }
        r.sweep("operands-written-beyond-the-range", cases, check_written);
    }
    let n = r.tier.n(20_000, 2_000_000);
    r.random(
        "operation-sequences",
        40,
        n / 10,
        |u| {
            let ty = u.below(2);
            let hot: Vec<Opnd> = if ty == 0 { [i64::MIN, -1, 0, 1, i64::MAX, 2, -2].iter().map(|x| Opnd::I(*x)).collect() } else { [0u64, 1, 2, u64::MAX, 1 << 63].iter().map(|x| Opnd::U(*x)).collect() };
            let mut pool: Vec<Opnd> = (0..2 + u.below(2)).map(|_| if u.flip() { u.pick(&hot).clone() } else { gen_opnd(u, ty) }).collect();
            pool.push(u.pick(&hot).clone());
            let steps = (0..2 + u.below(7)).map(|_| Bin { a: u.pick(&pool).clone(), b: u.pick(&pool).clone(), op: *u.pick(&['/', '%', '/', '%', '*', '+', '-']), form: if ty == 0 { u.below(3) as u8 } else { u.below(2) as u8 } }).collect();
            Seq { steps }
        },
        check_seq,
    );
    r.random(
        "operator-chains",
        40,
        n / 4,
        |u| {
            let ty = u.below(2);
            // operands near the edges so that regrouping changes which partial result leaves the range
            let small = |u: &mut Chooser| if ty == 0 { Opnd::I(u.range(-10, 10) as i64) } else { Opnd::U(u.below(10) as u64) };
            let edge = |u: &mut Chooser| if ty == 0 { Opnd::I(*u.pick(&[i64::MAX, i64::MIN, i64::MAX - 5, i64::MIN + 5, i64::MAX / 2 + 1, i64::MIN / 2 - 1])) } else { Opnd::U(*u.pick(&[u64::MAX, u64::MAX - 5, 1 << 63, (1 << 63) - 1])) };
            let opnd = |u: &mut Chooser| match u.below(4) {
                0 => edge(u),
                1 => gen_opnd(u, ty),
                _ => small(u),
            };
            let first = opnd(u);
            let len = 2 + u.below(5);
            let additive_only = u.flip();
            let rest = (0..len).map(|_| (if additive_only { *u.pick(&['+', '+', '-']) } else { *u.pick(&['+', '-', '*', '+', '/', '%']) }, opnd(u))).collect();
            Chain { first, rest, form: u.below(2) as u8 }
        },
        check_chain,
    );
    r.random(
        "random-pairs",
        12,
        n,
        |u| {
            let ty = u.below(2);
            let a = gen_opnd(u, ty);
            let b = gen_opnd(u, ty);
            let op = *u.pick(&OPS);
            let form = u.below(3) as u8;
            Bin { a, b, op, form: if ty == 1 && form == 2 { 0 } else { form } }
        },
        check_bin,
    );
    r.random(
        "random-laws",
        10,
        n / 4,
        |u| {
            let ty = u.below(2);
            Bin { a: gen_opnd(u, ty), b: gen_opnd(u, ty), op: '/', form: 1 }
        },
        check_law,
    );
    r.random(
        "random-mixtures",
        12,
        n / 8,
        |u| {
            let ta = u.below(3);
            let tb = (ta + 1 + u.below(2)) % 3;
            let a = gen_opnd(u, ta);
            let b = gen_opnd(u, tb);
            Bin { a, b, op: *u.pick(&OPS), form: 1 }
        },
        check_bin,
    );
    r.random("random-negate", 6, n / 8, |u| Neg { a: gen_opnd(u, 0), form: u.below(3) as u8 }, check_neg);
    r.expect_class("overflow", 100);
    r.expect_class("zero-divisor", 100);
}
