//! C12 — string and bytes literals denote exactly the characters written.

use crate::chooser::Chooser;
use crate::engine::{fail, pass_n, Outcome, Runner, Tier};
use crate::model::V;
use crate::sut::{self, Ran, R};
use serde::{Deserialize, Serialize};

#[derive(Clone, Copy, Debug, PartialEq, Serialize, Deserialize)]
pub enum How {
    Verbatim,
    /// single-character escape (\n, \\, \', …)
    Simple,
    HexLower,
    HexUpper,
    Oct,
    U4,
    U8,
}

#[derive(Clone, Debug, Serialize, Deserialize)]
pub struct Style {
    pub bytes: bool,
    pub dquote: bool,
    pub triple: bool,
    pub raw: bool,
    /// upper-case prefix letters (B / R)
    pub upper: bool,
}

impl Style {
    pub fn all() -> Vec<Style> {
        let mut v = vec![];
        for bytes in [false, true] {
            for dquote in [false, true] {
                for triple in [false, true] {
                    for raw in [false, true] {
                        v.push(Style { bytes, dquote, triple, raw, upper: false });
                    }
                }
            }
        }
        v
    }
    fn quote(&self) -> char {
        if self.dquote {
            '"'
        } else {
            '\''
        }
    }
    fn delim(&self) -> String {
        let q = self.quote();
        if self.triple {
            format!("{q}{q}{q}")
        } else {
            q.to_string()
        }
    }
    fn prefix(&self) -> String {
        let mut p = String::new();
        if self.bytes {
            p.push(if self.upper { 'B' } else { 'b' });
        }
        if self.raw {
            p.push(if self.upper { 'R' } else { 'r' });
        }
        p
    }
    pub fn name(&self) -> &'static str {
        match (self.bytes, self.triple, self.raw) {
            (false, false, false) => "string-one-line-cooked",
            (false, false, true) => "string-one-line-raw",
            (false, true, false) => "string-triple-cooked",
            (false, true, true) => "string-triple-raw",
            (true, false, false) => "bytes-one-line-cooked",
            (true, false, true) => "bytes-one-line-raw",
            (true, true, false) => "bytes-triple-cooked",
            (true, true, true) => "bytes-triple-raw",
        }
    }
}

/// one element of a literal body: a code point (string literal / verbatim part of a bytes literal) or
/// a byte value (escape in a bytes literal), and how it is written
#[derive(Clone, Debug, Serialize, Deserialize)]
pub struct Piece {
    pub value: u32,
    pub how: How,
}

#[derive(Clone, Debug, Serialize, Deserialize)]
pub struct Case {
    pub style: Style,
    pub pieces: Vec<Piece>,
    /// hex digits in upper case
    pub hex_upper: bool,
}

pub const SIMPLE: [(char, u32); 12] = [('a', 7), ('b', 8), ('f', 12), ('n', 10), ('r', 13), ('t', 9), ('v', 11), ('\\', 92), ('?', 63), ('"', 34), ('\'', 39), ('`', 96)];

fn simple_for(v: u32) -> Option<char> {
    SIMPLE.iter().find(|(_, x)| *x == v).map(|(c, _)| *c)
}

fn render_piece(p: &Piece, hex_upper: bool) -> Option<String> {
    let hx = |v: u32, w: usize| if hex_upper { format!("{:0w$X}", v, w = w) } else { format!("{:0w$x}", v, w = w) };
    Some(match p.how {
        How::Verbatim => char::from_u32(p.value)?.to_string(),
        How::Simple => format!("\\{}", simple_for(p.value)?),
        How::HexLower => {
            if p.value > 0xff {
                return None;
            }
            format!("\\x{}", hx(p.value, 2))
        }
        How::HexUpper => {
            if p.value > 0xff {
                return None;
            }
            format!("\\X{}", hx(p.value, 2))
        }
        How::Oct => {
            if p.value > 0xff {
                return None;
            }
            format!("\\{:03o}", p.value)
        }
        How::U4 => {
            if p.value > 0xffff {
                return None;
            }
            format!("\\u{}", hx(p.value, 4))
        }
        How::U8 => format!("\\U{}", hx(p.value, 8)),
    })
}

/// Conservative spellability (DESIGN B.4): Some(source) only when the grammar plainly allows it.
pub fn render(c: &Case) -> Option<String> {
    let st = &c.style;
    let q = st.quote();
    let mut body = String::new();
    for p in &c.pieces {
        match p.how {
            How::Verbatim => {
                let ch = char::from_u32(p.value)?;
                if st.raw {
                    if !st.triple && (ch == q || ch == '\n' || ch == '\r') {
                        return None;
                    }
                } else {
                    if ch == '\\' {
                        return None;
                    }
                    if !st.triple && (ch == q || ch == '\n' || ch == '\r') {
                        return None;
                    }
                }
            }
            _ => {
                if st.raw {
                    return None; // raw spellings have no escapes
                }
                if st.bytes && matches!(p.how, How::U4 | How::U8) {
                    return None; // not a valid bytes spelling (checked separately as an error form)
                }
                if !st.bytes && char::from_u32(p.value).is_none() {
                    return None;
                }
            }
        }
        body.push_str(&render_piece(p, c.hex_upper)?);
    }
    if st.triple {
        let d = st.delim();
        if body.contains(&d) || body.ends_with(q) {
            return None;
        }
        // a raw body ending in a backslash would be fine for the grammar; keep it
    }
    if st.raw && !st.triple && body.ends_with('\\') {
        // `r'…\'`: grammatical, and exactly the spelling that exposes mis-handled trailing backslashes
    }
    Some(format!("{}{}{}{}", st.prefix(), st.delim(), body, st.delim()))
}

pub fn expected(c: &Case) -> V {
    if c.style.bytes {
        let mut out: Vec<u8> = vec![];
        for p in &c.pieces {
            match p.how {
                How::Verbatim => {
                    let ch = char::from_u32(p.value).unwrap();
                    let mut buf = [0u8; 4];
                    out.extend_from_slice(ch.encode_utf8(&mut buf).as_bytes());
                }
                _ => out.push(p.value as u8),
            }
        }
        V::Bytes(out)
    } else {
        V::Str(c.pieces.iter().map(|p| char::from_u32(p.value).unwrap()).collect())
    }
}

/// recorded behaviour of the known finding: in a one-line cooked *string*, the escape of the other
/// quote character keeps its backslash
fn asis_other_quote(c: &Case) -> Option<V> {
    if c.style.bytes || c.style.raw || c.style.triple {
        return None;
    }
    let other = if c.style.dquote { '\'' } else { '"' } as u32;
    if !c.pieces.iter().any(|p| p.how == How::Simple && p.value == other) {
        return None;
    }
    let mut s = String::new();
    for p in &c.pieces {
        if p.how == How::Simple && p.value == other {
            s.push('\\');
        }
        s.push(char::from_u32(p.value).unwrap());
    }
    Some(V::Str(s))
}

/// recorded behaviour of the known finding: a one-line raw literal whose body ends in a backslash
/// (or contains backslash + the other... no: only the trailing case is reachable through real tokens)
fn asis_raw_trailing_backslash(c: &Case) -> Option<V> {
    if !c.style.raw || c.style.triple || c.style.bytes {
        return None;
    }
    if c.pieces.last().map(|p| p.value) != Some('\\' as u32) {
        return None;
    }
    // the decoder swallows the final backslash and keeps the closing quote instead
    let mut s: String = c.pieces.iter().map(|p| char::from_u32(p.value).unwrap()).collect();
    s.pop();
    s.push(c.style.quote());
    Some(V::Str(s))
}

pub fn check(c: &Case) -> Outcome {
    let Some(src) = render(c) else { return Outcome::Skip("style-cannot-spell-this-body") };
    let exp = expected(c);
    let got = match sut::run_src(&src, &[]) {
        Ran::Done(R::Val(v)) => v,
        Ran::NoCompile(e) if c.style.raw && c.style.triple && c.pieces.iter().any(|p| p.value == 0x10ffff || p.value == 0) => {
            return Outcome::Known { id: "lit_raw_triple_rejects_nul_and_u10ffff", what: format!("{src:?} does not compile: {}", sut::trunc(&e, 80)) };
        }
        o => {
            return fail(format!("literal {src:?} should denote {}, observed {}", sut::show_v(&exp), o.show()));
        }
    };
    if !crate::model::same(&exp, &got) {
        if let Some(a) = asis_other_quote(c) {
            if crate::model::same(&a, &got) {
                return Outcome::Known { id: "lit_escaped_other_quote_keeps_backslash", what: format!("{src} evaluates to {}", sut::show_v(&got)) };
            }
        }
        if let Some(a) = asis_raw_trailing_backslash(c) {
            if crate::model::same(&a, &got) {
                return Outcome::Known { id: "lit_raw_one_line_trailing_backslash", what: format!("{src} evaluates to {}", sut::show_v(&got)) };
            }
        }
        return fail(format!("literal {src:?} should denote {}, observed {}", sut::show_v(&exp), sut::show_v(&got)));
    }
    let escapes = c.pieces.iter().filter(|p| p.how != How::Verbatim).count();
    let q = c.style.quote() as u32;
    let has_quote = c.pieces.iter().any(|p| p.value == q || p.value == '"' as u32 || p.value == '\'' as u32);
    let non_ascii = c.pieces.iter().any(|p| p.value > 0x7f);
    let nt = escapes > 0 || has_quote || non_ascii || c.style.triple || c.style.raw || c.style.bytes;
    let mut cl = vec![c.style.name()];
    if escapes > 0 {
        cl.push("has-escape");
    }
    if has_quote {
        cl.push("quote-in-body");
    }
    if non_ascii {
        cl.push("non-ascii");
    }
    pass_n(nt, cl)
}

#[derive(Clone, Debug, Serialize, Deserialize)]
pub struct Bad {
    pub src: String,
}

pub fn check_bad(c: &Bad) -> Outcome {
    match sut::compile(&c.src) {
        Err(p) => fail(format!("compile of {:?} {}", c.src, p.short())),
        Ok(Err(_)) => pass_n(true, vec!["invalid-escape-rejected"]),
        Ok(Ok(_)) => fail(format!("literal {:?} contains an escape that names no valid code point / is not a valid escape, yet it compiles", c.src)),
    }
}

/// two literals in one program: a cooked literal and the raw literal with the *same body text* (and variations of prefix
/// case); each must denote what it denotes when it stands alone, whatever else the program contains
#[derive(Clone, Debug, Serialize, Deserialize)]
pub struct Pair {
    pub cooked: Case,
    /// spell the twin with upper-case prefix letters
    pub twin_upper: bool,
    /// 0: [A, B]   1: [B, A]   2: [A, B, A]   3: A + B (strings only)   4: {'k': A}.k == B ? [A, B] : [A, B]
    pub shape: u8,
}

pub fn check_pair(c: &Pair) -> Outcome {
    let Some(a_src) = render(&c.cooked) else { return Outcome::Skip("style-cannot-spell-this-body") };
    let st = &c.cooked.style;
    let body = &a_src[st.prefix().len() + st.delim().len()..a_src.len() - st.delim().len()];
    // the raw twin: same quotes, same body text
    let twin_style = Style { raw: !st.raw, upper: c.twin_upper, ..st.clone() };
    // (spelled through the renderer, which refuses bodies the twin's token rule cannot hold: a quote character or a line
    // break in a one-line raw literal would end the token early and turn the rest into other tokens or a comment)
    let twin = Case { style: twin_style.clone(), pieces: body.chars().map(|ch| Piece { value: ch as u32, how: How::Verbatim }).collect(), hex_upper: false };
    let Some(b_src) = render(&twin) else { return Outcome::Skip("twin-style-cannot-spell-this-body") };
    if b_src.contains("//") || a_src.contains("//") {
        // inside a literal `//` is text; kept out of the pair programs so that a mis-lexed literal cannot comment out the rest
        return Outcome::Skip("body-contains-comment-marker");
    }
    let alone = |src: &str| -> Option<V> {
        match sut::run_src(src, &[]) {
            Ran::Done(R::Val(v)) => Some(v),
            _ => None,
        }
    };
    // what each denotes alone is the single-literal families' business; here only: the same in company
    let (Some(va), Some(vb)) = (alone(&a_src), alone(&b_src)) else { return Outcome::Skip("one-of-the-two-does-not-compile-alone") };
    let (src, exp) = match c.shape {
        0 => (format!("[{a_src}, {b_src}]"), V::List(vec![va.clone(), vb.clone()])),
        1 => (format!("[{b_src}, {a_src}]"), V::List(vec![vb.clone(), va.clone()])),
        2 => (format!("[{a_src}, {b_src}, {a_src}]"), V::List(vec![va.clone(), vb.clone(), va.clone()])),
        3 => (
            format!("{a_src} + {b_src}"),
            match (&va, &vb) {
                (V::Str(x), V::Str(y)) => V::Str(format!("{x}{y}")),
                // `+` on bytes is not part of this implementation's operator set (nor of the property)
                _ => return Outcome::Skip("not-concatenable"),
            },
        ),
        _ => (format!("{{'k': {a_src}, 'j': {b_src}}}.k == {a_src} ? [{b_src}, {a_src}] : []"), V::List(vec![vb.clone(), va.clone()])),
    };
    match sut::run_src(&src, &[]) {
        Ran::Done(R::Val(g)) if crate::model::same(&g, &exp) => pass_n(!crate::model::same(&va, &vb), vec![if crate::model::same(&va, &vb) { "pair:same-value" } else { "pair:cooked-and-raw-differ" }]),
        o => fail(format!("`{src}`: alone, {a_src} denotes {} and {b_src} denotes {}; together the program should give {}, observed {}", sut::show_v(&va), sut::show_v(&vb), sut::show_v(&exp), o.show())),
    }
}

fn cooked_styles() -> Vec<Style> {
    Style::all().into_iter().filter(|s| !s.raw).collect()
}

fn escape_cases(quick_stride: u32) -> Vec<Case> {
    let mut cases = vec![];
    let wrap = |style: &Style, p: Piece, hex_upper: bool, cases: &mut Vec<Case>| {
        cases.push(Case { style: style.clone(), pieces: vec![p.clone()], hex_upper });
        cases.push(Case { style: style.clone(), pieces: vec![Piece { value: 'a' as u32, how: How::Verbatim }, p, Piece { value: 'z' as u32, how: How::Verbatim }], hex_upper });
    };
    for style in cooked_styles() {
        for v in 0..=255u32 {
            for how in [How::HexLower, How::HexUpper, How::Oct] {
                for hu in [false, true] {
                    if how == How::Oct && hu {
                        continue;
                    }
                    wrap(&style, Piece { value: v, how }, hu, &mut cases);
                }
            }
        }
        for (_, v) in SIMPLE {
            wrap(&style, Piece { value: v, how: How::Simple }, false, &mut cases);
        }
        if !style.bytes {
            let mut v = 0u32;
            while v <= 0xffff {
                if !(0xd800..=0xdfff).contains(&v) {
                    wrap(&style, Piece { value: v, how: How::U4 }, v % 2 == 0, &mut cases);
                }
                v += quick_stride;
            }
            // \U: plane boundaries ±2, BMP edge cases
            let mut pts: Vec<u32> = vec![0, 1, 0x7f, 0x80, 0xff, 0x100, 0x7ff, 0x800, 0xd7ff, 0xe000, 0xfffd, 0xffff];
            for plane in 1..=16u32 {
                for d in [-2i64, -1, 0, 1, 2] {
                    let p = (plane as i64 * 0x10000 + d) as u32;
                    if p <= 0x10ffff {
                        pts.push(p);
                    }
                }
            }
            pts.push(0x10ffff);
            pts.push(0x10fffe);
            for p in pts {
                if char::from_u32(p).is_some() {
                    wrap(&style, Piece { value: p, how: How::U8 }, p % 2 == 1, &mut cases);
                }
            }
        }
    }
    cases
}

fn bad_cases() -> Vec<Bad> {
    let mut v = vec![];
    let bodies_any = ["\\400", "\\777", "\\8", "\\9", "\\q", "\\z", "\\ ", "\\x4", "\\xg1", "\\x", "\\X1", "\\u12", "\\u123", "\\uD800", "\\udfff", "\\U0011FFFF", "\\U00110000", "\\UFFFFFFFF", "\\U0000D800", "\\U1234", "\\0", "\\07", "\\38"];
    let bodies_bytes_only = ["\\u0041", "\\U00000041", "\\u00e9"];
    for style in cooked_styles() {
        let d = style.delim();
        for b in bodies_any {
            let lit = format!("{}{d}{b}{d}", style.prefix());
            let ok = if style.bytes { "b'ok'" } else { "'ok'" };
            v.push(Bad { src: lit.clone() });
            v.push(Bad { src: format!("{}{d}ok{b}ok{d}", style.prefix()) });
            // wherever the literal stands - an operand that is never evaluated included - the program does not compile
            v.push(Bad { src: format!("true ? {ok} : {lit}") });
            v.push(Bad { src: format!("false ? {lit} : {ok}") });
            v.push(Bad { src: format!("false && {lit} == {ok}") });
            v.push(Bad { src: format!("[{ok}, {lit}]") });
            v.push(Bad { src: format!("size({lit})") });
        }
        if style.bytes {
            for b in bodies_bytes_only {
                v.push(Bad { src: format!("{}{d}{b}{d}", style.prefix()) });
            }
        }
    }
    v
}

fn gen_case(u: &mut Chooser) -> Case {
    let style = Style { bytes: u.flip(), dquote: u.flip(), triple: u.chance(1, 3), raw: u.chance(1, 4), upper: u.chance(1, 4) };
    let q = style.quote();
    let n = u.below(9);
    let alphabet: Vec<char> = "aZ09 '\"\\`?\n\r\t\u{0}\u{7}\u{b}\u{7f}\u{80}\u{ff}é日\u{ffff}𝄞\u{10ffff}#/".chars().collect();
    let mut pieces = vec![];
    for _ in 0..n {
        let ch = match u.below(4) {
            0 => q,
            1 => '\\',
            _ => *u.pick(&alphabet),
        };
        let cp = ch as u32;
        // candidate ways to write it in this style
        let mut hows: Vec<How> = vec![];
        let verbatim_ok = if style.raw { style.triple || !(ch == q || ch == '\n' || ch == '\r') } else { ch != '\\' && (style.triple || !(ch == q || ch == '\n' || ch == '\r')) };
        if verbatim_ok {
            hows.push(How::Verbatim);
            hows.push(How::Verbatim);
        }
        if !style.raw {
            if simple_for(cp).is_some() {
                hows.push(How::Simple);
                hows.push(How::Simple);
            }
            if style.bytes {
                // in a bytes literal an escape denotes one byte; only ASCII code points are one byte
                if cp <= 0x7f {
                    hows.extend([How::HexLower, How::HexUpper, How::Oct]);
                }
            } else {
                if cp <= 0xff {
                    hows.extend([How::HexLower, How::HexUpper, How::Oct]);
                }
                if cp <= 0xffff {
                    hows.push(How::U4);
                }
                hows.push(How::U8);
            }
        }
        if hows.is_empty() {
            continue;
        }
        let how = *u.pick(&hows);
        pieces.push(Piece { value: cp, how });
        // bytes literals: sprinkle raw byte escapes that are not valid UTF-8 on their own
        if style.bytes && !style.raw && u.chance(1, 4) {
            pieces.push(Piece { value: u.below(256) as u32, how: *u.pick(&[How::HexLower, How::HexUpper, How::Oct]) });
        }
    }
    Case { style, pieces, hex_upper: u.flip() }
}

pub fn run(r: &mut Runner) {
    r.rule = "cases: (spelling, body pieces with a per-piece choice of verbatim or escape form): sixteen spellings = {string, bytes} x {', \", ''', \"\"\"} x {cooked, raw}; exhaustively every \\xHH and \\XHH, every \\OOO, \
              every single-character escape, every \\uHHHH (quick: stride-sampled) and the \\U plane boundaries in every cooked spelling, alone and between two ordinary characters; every invalid escape form expecting a compile error \
              (\\u / \\U in bytes literals included); pairs of a cooked literal and the raw literal with the same body text inside one program (each must denote what it denotes alone); random bodies over an alphabet rich in quotes, backslashes, CR/LF, controls, non-ASCII and astral characters rendered in every spelling that can spell them. \
              Oracle: the literal evaluates to exactly the string / byte sequence the renderer started from. Non-trivial: an escape, a quote character in the body, non-ASCII, or a triple / raw / bytes spelling; distinct by source."
        .into();
    r.assumptions = vec!["spellability is decided conservatively from the STRING / BYTES token rules of CEL.g4 (DESIGN B.4)".into()];
    let stride = if r.tier == Tier::Thorough { 1 } else { 97 };
    r.sweep("every-single-escape", escape_cases(stride), check);
    r.sweep("invalid-escapes", bad_cases(), check_bad);
    // every spelling over a small fixed set of bodies, all verbatim
    {
        let bodies: Vec<Vec<char>> = vec![vec![], vec!['a'], vec!['\''], vec!['"'], vec!['\'', 'x'], vec!['x', '"', 'y'], vec!['\\'], vec!['\\', 'n'], vec!['x', '\\'], vec!['\n'], vec!['é'], vec!['𝄞', '\'', '\'', 'a'], vec!['"', '"', 'a'], vec!['\\', '\''], vec!['\\', '"'], vec!['`'], vec!['\\', 'x', '4', '1']];
        let mut cases = vec![];
        for st in Style::all() {
            for upper in [false, true] {
                for b in &bodies {
                    let mut s = st.clone();
                    s.upper = upper;
                    cases.push(Case { style: s, pieces: b.iter().map(|c| Piece { value: *c as u32, how: How::Verbatim }).collect(), hex_upper: false });
                }
            }
        }
        r.sweep("all-spellings-fixed-bodies", cases, check);
    }
    let n = r.tier.n(30_000, 1_000_000);
    r.random("random-bodies", 64, n, gen_case, check);
    r.random(
        "cooked-and-raw-twins-in-one-program",
        64,
        n / 3,
        |u| {
            let mut cooked = gen_case(u);
            cooked.style.raw = u.chance(1, 8);
            if cooked.style.raw {
                cooked.pieces.retain(|p| p.how == How::Verbatim);
            }
            Pair { cooked, twin_upper: u.flip(), shape: u.below(5) as u8 }
        },
        check_pair,
    );
    for s in Style::all().into_iter().filter(|s| !s.dquote) {
        r.expect_class(s.name(), 200);
    }
}
