//! C16 — timestamps keep the instant and calendar fields they were given.

use crate::chooser::Chooser;
use crate::engine::{fail, pass_n, Outcome, Runner};
use crate::model::cal::{days_in_month, fields, instant, is_leap, parse_rfc3339, rfc3339};
use crate::model::{lit, V};
use crate::sut::{self, Ran, R};
use serde::{Deserialize, Serialize};

/// a timestamp given by its *local* civil time and offset (what an RFC 3339 string spells)
#[derive(Clone, Debug, Serialize, Deserialize)]
pub struct T {
    pub y: i64,
    pub mo: u32,
    pub d: u32,
    pub h: u32,
    pub mi: u32,
    pub s: u32,
    pub nanos: u32,
    pub off: i32,
    /// fractional digits written (0, 3, 6, 9 or minimal)
    pub digits: u8,
}

impl T {
    fn secs(&self) -> i64 {
        instant(self.y, self.mo, self.d, self.h, self.mi, self.s, self.off)
    }
    fn total_ns(&self) -> i128 {
        self.secs() as i128 * 1_000_000_000 + self.nanos as i128
    }
    fn text(&self) -> String {
        let digits = if self.nanos == 0 { (self.digits % 2) as usize * 3 } else { min_digits(self.nanos).max(match self.digits % 4 { 0 => 0, 1 => 3, 2 => 6, _ => 9 }) };
        rfc3339(self.secs(), self.nanos, self.off, digits, self.digits % 2 == 0)
    }
    fn value(&self) -> V {
        V::Ts(self.secs(), self.nanos, self.off)
    }
}

fn min_digits(nanos: u32) -> usize {
    let s = format!("{:09}", nanos);
    s.trim_end_matches('0').len()
}

#[derive(Clone, Debug, Serialize, Deserialize)]
pub enum Case {
    Fields { t: T, from_text: bool },
    RoundTrip { t: T, from_text: bool },
    /// the same instant written under another offset, and a second timestamp for ordering
    Order { a: T, other_off: i32, b: T },
    /// arithmetic with a duration (ns) and another timestamp
    Arith { t: T, d_ns: i64, u: T },
}

const ACCESSORS: [&str; 10] = ["getFullYear", "getMonth", "getDayOfMonth", "getDate", "getDayOfYear", "getDayOfWeek", "getHours", "getMinutes", "getSeconds", "getMilliseconds"];

fn ts_expr(t: &T, from_text: bool) -> (String, Vec<(String, V)>) {
    if from_text {
        (format!("timestamp({})", lit::str_lit(&t.text())), vec![])
    } else {
        ("t".to_string(), vec![("t".to_string(), t.value())])
    }
}

fn t_class(t: &T) -> (bool, &'static str) {
    let utc = fields(t.secs(), t.nanos, 0);
    if (utc.year, utc.month, utc.day) != (t.y, t.mo, t.d) {
        if utc.year != t.y {
            (true, "offset-crosses-year")
        } else if utc.month != t.mo {
            (true, "offset-crosses-month")
        } else {
            (true, "offset-crosses-day")
        }
    } else if t.mo == 2 && t.d == 29 {
        (true, "feb-29")
    } else if (t.mo == 12 && t.d == 31) || (t.mo == 1 && t.d == 1) {
        (true, "year-edge")
    } else if t.nanos % 1_000_000 != 0 {
        (true, "sub-millisecond")
    } else {
        (false, "plain")
    }
}

pub fn check(c: &Case) -> Outcome {
    match c {
        Case::Fields { t, from_text } => {
            let (e, vars) = ts_expr(t, *from_text);
            // the oracle: fields of the instant at the offset, computed by the independent calendar — they must be the local time written
            let f = fields(t.secs(), t.nanos, t.off);
            if (f.year, f.month, f.day, f.hour, f.minute, f.second) != (t.y, t.mo, t.d, t.h, t.mi, t.s) {
                panic!("calendar oracle is inconsistent for {t:?}: {f:?}");
            }
            let want: [i64; 10] = [f.year, f.month as i64 - 1, f.day as i64 - 1, f.day as i64, f.day_of_year as i64, f.weekday as i64, f.hour as i64, f.minute as i64, f.second as i64, (f.nanos / 1_000_000) as i64];
            for (k, a) in ACCESSORS.iter().enumerate() {
                for src in [format!("{e}.{a}()"), format!("{a}({e})")] {
                    match sut::run_src(&src, &vars) {
                        Ran::Done(R::Val(V::Int(g))) if g == want[k] => {}
                        o => return fail(format!("`{src}` for {} : expected {} ({}), observed {}", t.text(), want[k], a, o.show())),
                    }
                }
                if !*from_text && k % 3 == (t.s as usize) % 3 {
                    // the same value handed over through the crate's serde wrapper
                    let src = format!("{e}.{a}()");
                    match sut::run_src_wrapped(&src, &vars) {
                        Ran::Done(R::Val(V::Int(g))) if g == want[k] => {}
                        o => return fail(format!("`{src}` for {} supplied as cel_interpreter::Timestamp: expected {} ({}), observed {}", t.text(), want[k], a, o.show())),
                    }
                }
            }
            if !*from_text {
                match sut::run_src_wrapped("t", &vars) {
                    Ran::Done(R::Val(V::Ts(s, n, o))) if s == t.secs() && n == t.nanos && o == t.off => {}
                    o => return fail(format!("{} supplied as cel_interpreter::Timestamp should be instant {} s + {} ns at offset {} s, observed {}", t.text(), t.secs(), t.nanos, t.off, o.show())),
                }
            }
            let (nt, cl) = t_class(t);
            pass_n(nt, vec![cl, if *from_text { "accessors-from-text" } else { "accessors-from-value" }])
        }
        Case::RoundTrip { t, from_text } => {
            let (e, vars) = ts_expr(t, *from_text);
            // the value itself
            match sut::run_src(&e, &vars) {
                Ran::Done(R::Val(V::Ts(s, n, o))) if s == t.secs() && n == t.nanos && o == t.off => {}
                o => return fail(format!("`{e}` for {} should be instant {} s + {} ns at offset {} s, observed {}", t.text(), t.secs(), t.nanos, t.off, o.show())),
            }
            let src = format!("timestamp(string({e})) == {e}");
            match sut::run_src(&src, &vars) {
                Ran::Done(R::Val(V::Bool(true))) => {}
                o => return fail(format!("`{src}` for {}: expected true, observed {}", t.text(), o.show())),
            }
            match sut::run_src(&format!("string({e})"), &vars) {
                Ran::Done(R::Val(V::Str(s))) => match parse_rfc3339(&s) {
                    Some((secs, nanos, off)) if secs == t.secs() && nanos == t.nanos && off == t.off => {}
                    other => return fail(format!("string({}) = {s:?}, which the independent RFC 3339 reader maps to {other:?}, not to the same instant and offset", t.text())),
                },
                o => return fail(format!("string({e}) for {}: {}", t.text(), o.show())),
            }
            let (nt, cl) = t_class(t);
            pass_n(nt, vec![cl, "round-trip"])
        }
        Case::Order { a, other_off, b } => {
            // a2: the instant of a under another offset
            let a2 = V::Ts(a.secs(), a.nanos, *other_off);
            let vars = vec![("a".to_string(), a.value()), ("a2".to_string(), a2), ("b".to_string(), b.value())];
            for (src, want) in [("a == a2", true), ("a != a2", false), ("a < a2", false), ("a > a2", false), ("a <= a2", true), ("a >= a2", true)] {
                match sut::run_src(src, &vars) {
                    Ran::Done(R::Val(V::Bool(g))) if g == want => {}
                    o => return fail(format!("`{src}` with a = {} and a2 = the same instant at offset {} s: expected {want}, observed {}", a.text(), other_off, o.show())),
                }
            }
            // accessors of the two spellings of one instant, interleaved in one program: each reports its own local time
            {
                let (fa, fb) = (fields(a.secs(), a.nanos, a.off), fields(a.secs(), a.nanos, *other_off));
                let pick = |f: &crate::model::cal::Fields, k: usize| -> i64 { [f.year, f.month as i64 - 1, f.day as i64 - 1, f.day as i64, f.day_of_year as i64, f.weekday as i64, f.hour as i64, f.minute as i64, f.second as i64, (f.nanos / 1_000_000) as i64][k] };
                for (k, acc) in ACCESSORS.iter().enumerate() {
                    let src = format!("[a.{acc}(), a2.{acc}(), a.{acc}(), b.{acc}(), a2.{acc}()]");
                    let fbb = fields(b.secs(), b.nanos, b.off);
                    let want = V::List(vec![V::Int(pick(&fa, k)), V::Int(pick(&fb, k)), V::Int(pick(&fa, k)), V::Int(pick(&fbb, k)), V::Int(pick(&fb, k))]);
                    match sut::run_src(&src, &vars) {
                        Ran::Done(R::Val(g)) if crate::model::same(&g, &want) => {}
                        o => return fail(format!("`{src}` with a = {}, a2 = the same instant at offset {} s, b = {}: expected {want:?}, observed {}", a.text(), other_off, b.text(), o.show())),
                    }
                }
            }
            // text form too
            let y2 = fields(a.secs(), a.nanos, *other_off).year;
            if (1..=9999).contains(&y2) {
                // (the other offset may push the local year out of 0001-9999, which RFC 3339 cannot spell)
                let a2_text = rfc3339(a.secs(), a.nanos, *other_off, 9, false);
                let src = format!("timestamp({}) == timestamp({})", lit::str_lit(&rfc3339(a.secs(), a.nanos, a.off, 9, true)), lit::str_lit(&a2_text));
                match sut::run_src(&src, &[]) {
                    Ran::Done(R::Val(V::Bool(true))) => {}
                    o => return fail(format!("`{src}`: expected true, observed {}", o.show())),
                }
            }
            let (x, y) = (a.total_ns(), b.total_ns());
            for (src, want) in [("a < b", x < y), ("a <= b", x <= y), ("a > b", x > y), ("a >= b", x >= y), ("a == b", x == y), ("a != b", x != y)] {
                match sut::run_src(src, &vars) {
                    Ran::Done(R::Val(V::Bool(g))) if g == want => {}
                    o => return fail(format!("`{src}` with a = {} b = {}: expected {want}, observed {}", a.text(), b.text(), o.show())),
                }
            }
            pass_n(true, vec![if a.off != *other_off { "same-instant-different-offset" } else { "same-offset" }, "ordering"])
        }
        Case::Arith { t, d_ns, u } => {
            let vars = vec![("t".to_string(), t.value()), ("d".to_string(), V::dur_ns(*d_ns as i128)), ("u".to_string(), u.value())];
            // "whenever t + d is representable; otherwise the operation is an error": an implementation may draw the
            // line at chrono's range or at CEL's 0001..9999; outside 0001..9999 (UTC or local) either outcome is accepted
            let in_years = |ns: i128| -> bool {
                let secs = ns.div_euclid(1_000_000_000) as i64;
                (1..=9999).contains(&fields(secs, 0, 0).year) && (1..=9999).contains(&fields(secs, 0, t.off).year)
            };
            let plus_ok = in_years(t.total_ns() + *d_ns as i128);
            let minus_ok = in_years(t.total_ns() - *d_ns as i128);
            for (src, representable) in [("t + d - d == t", plus_ok), ("(t + d) - t == d", plus_ok), ("d + t == t + d", plus_ok), ("t - d + d == t", minus_ok)] {
                match sut::run_src(src, &vars) {
                    Ran::Done(R::Val(V::Bool(true))) => {}
                    Ran::Done(R::Err(..)) if !representable => {}
                    o => return fail(format!("`{src}` with t = {} d = {} ns: expected true, observed {}", t.text(), d_ns, o.show())),
                }
            }
            // t + d is the instant shifted by exactly d
            let want = t.total_ns() + *d_ns as i128;
            match sut::run_src("t + d", &vars) {
                Ran::Done(R::Val(v @ V::Ts(..))) if v.ts_total_ns() == Some(want) => {}
                Ran::Done(R::Err(..)) if !plus_ok => {}
                o => return fail(format!("`t + d` with t = {} d = {} ns should be the instant {} ns, observed {}", t.text(), d_ns, want, o.show())),
            }
            // `d + t` is `t + d`: the same instant at the same offset, so every accessor and the rendering agree
            if plus_ok {
                for src in ["(d + t).getHours() == (t + d).getHours() && (d + t).getDate() == (t + d).getDate() && (d + t).getDayOfWeek() == (t + d).getDayOfWeek()", "string(d + t) == string(t + d)", "(d + t).getFullYear() == (t + d).getFullYear() && (d + t).getMinutes() == (t + d).getMinutes()"] {
                    match sut::run_src(src, &vars) {
                        Ran::Done(R::Val(V::Bool(true))) => {}
                        o => return fail(format!("`{src}` with t = {} d = {} ns: expected true, observed {}", t.text(), d_ns, o.show())),
                    }
                }
            }
            // an unparenthesised chain: every step from the left is representable, so the chain is
            {
                let steps_ok = (1..=3).all(|k| in_years(t.total_ns() + k * *d_ns as i128));
                let want3 = t.total_ns() + 3 * *d_ns as i128;
                match sut::run_src("t + d + d + d", &vars) {
                    Ran::Done(R::Val(v @ V::Ts(..))) if v.ts_total_ns() == Some(want3) => {}
                    Ran::Done(R::Err(..)) if !steps_ok => {}
                    o => return fail(format!("`t + d + d + d` with t = {} d = {} ns: from the left every partial sum is a timestamp; expected the instant {} ns, observed {}", t.text(), d_ns, want3, o.show())),
                }
            }
            // the duration written out the way string(d) prints it
            let src = format!("t + duration({}) == t + d", lit::str_lit(&crate::model::dur::go_format(*d_ns as i128)));
            match sut::run_src(&src, &vars) {
                Ran::Done(R::Val(V::Bool(true))) => {}
                Ran::Done(R::Err(..)) if !plus_ok => {}
                o => return fail(format!("`{src}` with t = {} d = {} ns: expected true, observed {}", t.text(), d_ns, o.show())),
            }
            let diff = t.total_ns() - u.total_ns();
            match sut::run_src("t - u", &vars) {
                Ran::Done(R::Val(v)) if v.dur_total_ns() == Some(diff) => {}
                o => return fail(format!("`t - u` with t = {} u = {} should be {} ns, observed {}", t.text(), u.text(), diff, o.show())),
            }
            pass_n(true, vec!["arithmetic"])
        }
    }
}

pub fn boundary_dates() -> Vec<(i64, u32, u32)> {
    let mut v = vec![];
    for y in [1i64, 4, 100, 400, 1582, 1600, 1900, 1969, 1970, 1999, 2000, 2001, 2004, 2023, 2024, 2038, 2100, 2400, 9996, 9999] {
        for m in 1..=12u32 {
            v.push((y, m, 1));
            v.push((y, m, days_in_month(y, m)));
        }
        if is_leap(y) {
            v.push((y, 2, 28));
        }
        v.push((y, 3, 15));
    }
    v
}

fn offsets() -> Vec<i32> {
    let mut v: Vec<i32> = (-48..=56).map(|q| q * 900).collect(); // -12:00 .. +14:00 in 15-minute steps
    v.extend([60, -60, 86340, -86340]);
    v
}

fn gen_t(u: &mut Chooser) -> T {
    let (y, mo, d) = match u.below(3) {
        0 => *u.pick(&boundary_dates()),
        _ => {
            let y = u.range(1, 9999);
            let mo = u.range(1, 12) as u32;
            (y, mo, u.range(1, days_in_month(y, mo) as i64) as u32)
        }
    };
    let (h, mi, s) = match u.below(4) {
        0 => (0, 0, 0),
        1 => (23, 59, 59),
        _ => (u.below(24) as u32, u.below(60) as u32, u.below(60) as u32),
    };
    let nanos = match u.below(5) {
        0 => 0,
        1 => 999_999_999,
        2 => u.below(1000) as u32 * 1_000_000,
        3 => u.below(1_000_000) as u32 * 1000,
        _ => u.below(1_000_000_000) as u32,
    };
    let off = match u.below(4) {
        0 => 0,
        1 => *u.pick(&offsets()),
        _ => u.range(-1439, 1439) as i32 * 60,
    };
    T { y, mo, d, h, mi, s, nanos, off, digits: u.below(8) as u8 }
}

pub fn run(r: &mut Runner) {
    r.rule = "cases: timestamps given by local civil time + offset: boundary dates (first / last day of every month in leap, non-leap, century and 400-year years; years 1, 1582, 1600, 1900, 1970, 2000, 2038, 9999 …) x times \
              {00:00:00, 12:34:56.789, 23:59:59.999999999} x offsets -12:00..+14:00 in 15-minute steps and +-00:01, +-23:59 (exhaustive), plus uniformly random dates, times, nanoseconds and whole-minute offsets in years 0001-9999; each supplied \
              as timestamp('<RFC 3339>') and as a host Value::Timestamp. Oracle: an independent proleptic-Gregorian calendar (day-count arithmetic) for the ten accessors with their documented origins, in both call styles; \
              timestamp(string(t)) == t and string(t) read back by an independent RFC 3339 reader; equal instants under different offsets are == and neither < nor >; ordering follows the instant; t + d - d == t, (t + d) - t == d, t + d at the same offset, t1 - t2 exact. \
              Non-trivial: the offset moves the local date across a day / month / year boundary, Feb 29, Dec 31 / Jan 1, or nanoseconds that are not whole milliseconds; distinct by input."
        .into();
    r.assumptions = vec!["not asserted: leap seconds (:60), years outside 0001-9999, lower-case t / z, offsets with a seconds part".into()];
    let dates = boundary_dates();
    let offs = offsets();
    let times: [(u32, u32, u32, u32); 3] = [(0, 0, 0, 0), (12, 34, 56, 789_000_000), (23, 59, 59, 999_999_999)];
    let (nd, no) = (dates.len() as u64, offs.len() as u64);
    {
        let (dates, offs) = (dates.clone(), offs.clone());
        r.sweep_fn(
            "boundary-dates-x-times-x-offsets",
            nd * no * 3 * 2,
            move |i| {
                let from_text = i % 2 == 0;
                let (h, mi, s, nanos) = times[((i / 2) % 3) as usize];
                let off = offs[((i / 6) % no) as usize];
                let (y, mo, d) = dates[(i / 6 / no) as usize];
                let t = T { y, mo, d, h, mi, s, nanos, off, digits: (i % 8) as u8 };
                // alternate between the accessor check and the round-trip check to keep the sweep affordable
                if (i / 6) % 2 == 0 {
                    Case::Fields { t, from_text }
                } else {
                    Case::RoundTrip { t, from_text }
                }
            },
            check,
        );
    }
    {
        // arithmetic whose operands and results sit on the edges of 0001..9999
        let mut cases = vec![];
        let edges = [
            T { y: 9999, mo: 12, d: 31, h: 23, mi: 59, s: 59, nanos: 999_999_999, off: 0, digits: 3 },
            T { y: 9999, mo: 12, d: 31, h: 23, mi: 59, s: 58, nanos: 500_000_000, off: 0, digits: 3 },
            T { y: 9999, mo: 12, d: 31, h: 23, mi: 59, s: 59, nanos: 1, off: 3600, digits: 3 },
            T { y: 9999, mo: 12, d: 30, h: 23, mi: 59, s: 59, nanos: 250_000_000, off: -43200, digits: 3 },
            T { y: 1, mo: 1, d: 1, h: 0, mi: 0, s: 0, nanos: 0, off: 0, digits: 0 },
            T { y: 1, mo: 1, d: 1, h: 0, mi: 0, s: 0, nanos: 1, off: 0, digits: 3 },
            T { y: 1, mo: 1, d: 2, h: 0, mi: 0, s: 0, nanos: 999_000_000, off: 50400, digits: 3 },
            T { y: 1970, mo: 1, d: 1, h: 0, mi: 0, s: 0, nanos: 0, off: 0, digits: 0 },
            T { y: 1969, mo: 12, d: 31, h: 23, mi: 59, s: 59, nanos: 250_000_000, off: 0, digits: 3 },
        ];
        let ds: [i64; 13] = [0, 1, -1, 500_000_000, -500_000_000, 1_000_000_000, -1_000_000_000, 86_400_000_000_000, -86_400_000_000_000, 999_999_999, -999_999_999, 3_600_000_000_000, -3_600_000_000_000];
        for t in &edges {
            for d in ds {
                for u in &edges {
                    cases.push(Case::Arith { t: t.clone(), d_ns: d, u: u.clone() });
                }
            }
        }
        for a in &edges {
            for b in &edges {
                cases.push(Case::Order { a: a.clone(), other_off: 3600, b: b.clone() });
                let mut b2 = a.clone();
                b2.nanos = (a.nanos as i64 + 1).min(999_999_999) as u32;
                cases.push(Case::Order { a: a.clone(), other_off: -7200, b: b2 });
            }
            cases.push(Case::Fields { t: a.clone(), from_text: true });
            cases.push(Case::Fields { t: a.clone(), from_text: false });
            cases.push(Case::RoundTrip { t: a.clone(), from_text: true });
        }
        r.sweep("range-edge-arithmetic-and-ordering", cases, check);
    }
    let n = r.tier.n(4_000, 300_000);
    r.random("random-accessors", 24, n, |u: &mut Chooser| Case::Fields { t: gen_t(u), from_text: u.flip() }, check);
    r.random("random-round-trips", 24, n, |u: &mut Chooser| Case::RoundTrip { t: gen_t(u), from_text: u.flip() }, check);
    r.random(
        "random-ordering",
        48,
        n,
        |u: &mut Chooser| {
            let a = gen_t(u);
            let b = if u.flip() {
                // close to a
                let mut b = a.clone();
                b.nanos = (b.nanos as i64 + u.range(-1, 1)).clamp(0, 999_999_999) as u32;
                b.off = *u.pick(&offsets());
                b
            } else {
                gen_t(u)
            };
            Case::Order { a, other_off: u.range(-1439, 1439) as i32 * 60, b }
        },
        check,
    );
    r.random(
        "random-arithmetic",
        48,
        n,
        |u: &mut Chooser| {
            // durations up to +-292 years
            let d = match u.below(3) {
                0 => *u.pick(&[0i64, 1, -1, 1_000_000_000, -1_000_000_000, 86_400_000_000_000, i64::MAX, i64::MIN + 1, 31_536_000_000_000_000]),
                _ => u.log_i64(),
            };
            Case::Arith { t: gen_t(u), d_ns: d, u: gen_t(u) }
        },
        check,
    );
    for c in ["offset-crosses-day", "offset-crosses-month", "offset-crosses-year", "feb-29", "year-edge", "sub-millisecond", "same-instant-different-offset"] {
        r.expect_class(c, 100);
    }
}
