pub mod c01;
pub mod c02;
pub mod c03;
pub mod c04;
pub mod c05;
pub mod c06;
pub mod c07;
pub mod c08;
pub mod c09;
pub mod c10;
pub mod c11;
pub mod c12;
pub mod c13;
pub mod c14;
pub mod c15;
pub mod c16;
pub mod c17;
pub mod c18;
pub mod c19;
pub mod c20;

use crate::engine::Runner;

pub const ALL: [&str; 20] = ["C01", "C02", "C03", "C04", "C05", "C06", "C07", "C08", "C09", "C10", "C11", "C12", "C13", "C14", "C15", "C16", "C17", "C18", "C19", "C20"];

pub fn run(id: &str, r: &mut Runner) {
    match id {
        "C01" => c01::run(r),
        "C02" => c02::run(r),
        "C03" => c03::run(r),
        "C04" => c04::run(r),
        "C05" => c05::run(r),
        "C06" => c06::run(r),
        "C07" => c07::run(r),
        "C08" => c08::run(r),
        "C09" => c09::run(r),
        "C10" => c10::run(r),
        "C11" => c11::run(r),
        "C12" => c12::run(r),
        "C13" => c13::run(r),
        "C14" => c14::run(r),
        "C15" => c15::run(r),
        "C16" => c16::run(r),
        "C17" => c17::run(r),
        "C18" => c18::run(r),
        "C19" => c19::run(r),
        "C20" => c20::run(r),
        _ => {
            println!("HARNESS-ERROR property {id} has no check yet");
            std::process::exit(2);
        }
    }
}
