//! C05 — execution is pure, repeatable and safe to share across threads.

use crate::chooser::Chooser;
use crate::engine::{fail, guard, pass_n, Outcome, Runner};
use crate::gen::typed::{gen_e, Env, Var, T};
use crate::gen::{gen_string, gen_value, ValOpts};
use crate::model::expr::{b, Mac, Op, E};
use crate::model::{same, V};
use crate::sut::{self, from_cel, to_cel, R};
use cel_interpreter::{Context, Program, Value};
use serde::{Deserialize, Serialize};
use std::sync::atomic::{AtomicUsize, Ordering};
use std::sync::Barrier;

#[derive(Clone, Debug, Serialize, Deserialize)]
pub enum Step {
    Exec(usize),
    Snapshot(usize),
    /// the host registers the function `late` in the context (it was not there before)
    Register,
    /// from here on the host works with one long-lived inner scope of the context
    OpenScope,
    /// the host binds, in that scope, a name the programs read (the root binds it too)
    Shadow(u8),
}

#[derive(Clone, Debug, Serialize, Deserialize)]
pub struct History {
    pub ctx: Vec<(String, V)>,
    pub programs: Vec<E>,
    pub steps: Vec<Step>,
}

fn same_result(a: &R, b: &R) -> bool {
    match (a, b) {
        (R::Val(x), R::Val(y)) => same(x, y),
        (R::Err(c1, m1), R::Err(c2, m2)) => c1 == c2 && (m1 == m2 || m1.contains('{') || true),
        _ => false,
    }
}

fn list_of(u: &mut Chooser, depth: usize) -> V {
    let n = u.below(4);
    V::List((0..n).map(|_| if depth > 0 && u.chance(1, 3) { list_of(u, depth - 1) } else { V::Int(u.range(0, 9)) }).collect())
}

pub fn gen_ctx(u: &mut Chooser) -> Vec<(String, V)> {
    let ll = V::List((0..1 + u.below(3)).map(|_| list_of(u, 0)).collect());
    vec![
        ("l0".to_string(), list_of(u, 1)),
        ("l1".to_string(), list_of(u, 0)),
        ("ll".to_string(), ll),
        ("s0".to_string(), V::Str(gen_string(u))),
        ("s1".to_string(), V::Str(gen_string(u))),
        ("m0".to_string(), V::Map(vec![(V::s("k"), list_of(u, 0)), (V::s("a"), V::Str(gen_string(u))), (V::Int(1), list_of(u, 1))])),
        ("b0".to_string(), V::Bool(u.flip())),
        // context variables that share their names with iteration variables used by some programs
        ("x".to_string(), V::Int(1000 + u.range(0, 9))),
        ("y".to_string(), V::List(vec![V::Int(77)])),
        ("any".to_string(), gen_value(u, 2, ValOpts::CORE)),
        // a collection holding NaN: equal to nothing, itself and its own clones included
        ("nl".to_string(), V::List(vec![V::f(f64::NAN), V::Int(1)])),
        // a longer list that is probed again and again
        ("big".to_string(), V::List((0..12 + u.below(8)).map(|k| V::Int(k as i64)).collect())),
    ]
}

/// programs biased to what can alias buffers
pub fn gen_prog(u: &mut Chooser, ctx: &[(String, V)]) -> E {
    let l = |u: &mut Chooser| E::var(*u.pick(&["l0", "l1"]));
    let s = |u: &mut Chooser| E::var(*u.pick(&["s0", "s1"]));
    let lit_l = |u: &mut Chooser| E::List((0..u.below(3)).map(|_| E::Lit(V::Int(u.range(0, 9)))).collect());
    let add = |a: E, c: E| E::bin(Op::Add, a, c);
    let idx = |a: E, i: i64| E::Index(b(a), b(E::Lit(V::Int(i))));
    let mac = |m: Mac, r: E, body: E| E::Macro(m, b(r), "x".into(), vec![body]);
    let x = || E::var("x");
    match u.below(54) {
        0 => add(l(u), lit_l(u)),
        1 => add(l(u), l(u)),
        2 => {
            let a = l(u);
            add(a.clone(), a)
        }
        3 => {
            let (a, c) = (l(u), l(u));
            E::List(vec![a.clone(), add(a, c)])
        }
        4 => add(add(l(u), l(u)), l(u)),
        5 => add(s(u), E::Lit(V::s("c"))),
        6 => add(s(u), s(u)),
        7 => {
            let a = s(u);
            E::List(vec![a.clone(), add(a.clone(), a)])
        }
        8 => mac(Mac::Map, E::var("ll"), add(x(), E::List(vec![E::Lit(V::Int(9))]))),
        9 => mac(Mac::Map, E::var("ll"), add(x(), x())),
        10 => add(idx(E::var("ll"), 0), lit_l(u)),
        11 => add(E::Select(b(E::var("m0")), "k".into()), lit_l(u)),
        12 => add(E::Index(b(E::var("m0")), b(E::Lit(V::s("k")))), E::Index(b(E::var("m0")), b(E::Lit(V::s("k"))))),
        13 => mac(Mac::Filter, E::var("ll"), E::bin(Op::Gt, E::call("size", vec![add(x(), E::List(vec![E::Lit(V::Int(1))]))]), E::Lit(V::Int(0)))),
        14 => E::List(vec![idx(E::var("ll"), 0), add(idx(E::var("ll"), 0), idx(E::var("ll"), 1))]),
        15 => mac(Mac::Map, l(u), add(E::List(vec![x()]), l(u))),
        16 => mac(Mac::All, l(u), E::bin(Op::Gt, E::call("size", vec![add(l(u), E::List(vec![x()]))]), E::Lit(V::Int(0)))),
        17 => add(E::Select(b(E::Map(vec![(E::Lit(V::s("a")), add(l(u), l(u)))])), "a".into()), l(u)),
        18 => add(E::Cond(b(E::var("b0")), b(l(u)), b(l(u))), lit_l(u)),
        19 => add(E::Select(b(E::var("m0")), "a".into()), s(u)),
        20 => mac(Mac::Map, E::var("ll"), mac(Mac::Map, add(x(), x()), add(E::List(vec![x()]), l(u)))),
        21 => add(E::var("any"), E::var("any")),
        22 => E::List(vec![E::var("any"), E::var("m0"), E::var("ll")]),
        23 => mac(Mac::Map, E::var("m0"), E::bin(Op::Add, E::List(vec![x()]), l(u))),
        // other iteration variables, bodies reading the *context's* x / y
        24 => E::Macro(Mac::Map, b(l(u)), "y".into(), vec![E::List(vec![E::var("x"), E::var("y")])]),
        25 => E::Macro(Mac::Filter, b(l(u)), "z".into(), vec![E::bin(Op::Gt, E::var("x"), E::var("z"))]),
        26 => E::Macro(Mac::Map, b(E::var("ll")), "z".into(), vec![E::bin(Op::Add, E::var("z"), E::var("y"))]),
        27 => E::Macro(Mac::Map, b(l(u)), "x".into(), vec![E::Macro(Mac::Map, b(l(u)), "y".into(), vec![E::bin(Op::Add, E::var("x"), E::var("y"))])]),
        28 => E::List(vec![E::var("x"), E::var("y")]),
        // a freshly concatenated (over-allocated) buffer bound to a name and extended twice
        29 => E::Macro(Mac::Map, b(E::List(vec![add(s(u), s(u))])), "x".into(), vec![E::List(vec![add(E::var("x"), E::Lit(V::s("c"))), add(E::var("x"), E::Lit(V::s("d")))])]),
        30 => E::Macro(Mac::Map, b(E::List(vec![add(l(u), l(u))])), "x".into(), vec![E::List(vec![add(E::var("x"), E::List(vec![E::Lit(V::Int(1))])), add(E::var("x"), E::List(vec![E::Lit(V::Int(2))]))])]),
        // `acc` / `lacc` are context variables whose values came out of an earlier concatenation (spare capacity, shared)
        31 => add(E::var("acc"), E::Lit(V::s("!"))),
        32 => E::List(vec![add(E::var("acc"), E::Lit(V::s("c"))), add(E::var("acc"), E::Lit(V::s("d"))), E::var("acc")]),
        33 => add(E::var("lacc"), E::List(vec![E::Lit(V::Int(7))])),
        34 => E::List(vec![add(E::var("lacc"), E::var("lacc")), E::var("lacc")]),
        // map literals holding a number under both integer key types: whichever entry answers, it answers the same way every time
        35 => E::Index(b(E::Map(vec![(E::Lit(V::Int(1)), E::Lit(V::s("i"))), (E::Lit(V::UInt(1)), E::Lit(V::s("u")))])), b(E::Lit(V::Int(1)))),
        36 => E::Index(b(E::Map(vec![(E::Lit(V::UInt(1)), E::Lit(V::s("u"))), (E::Lit(V::Int(1)), E::Lit(V::s("i")))])), b(E::Lit(V::UInt(1)))),
        37 => {
            let m = || E::Map(vec![(E::Lit(V::Int(2)), E::Lit(V::s("a"))), (E::Lit(V::UInt(2)), E::Lit(V::s("b"))), (E::Lit(V::Int(3)), E::Lit(V::s("c")))]);
            E::List(vec![E::Index(b(m()), b(E::Lit(V::Int(2)))), E::Index(b(m()), b(E::Lit(V::UInt(2)))), E::call("size", vec![m()])])
        }
        38 => E::Index(b(E::Map(vec![(E::Lit(V::Int(0)), l(u)), (E::Lit(V::UInt(0)), lit_l(u))])), b(E::Lit(V::Int(0)))),
        // a function the context may or may not have (yet), and a field of that name
        39 => add(E::List(vec![E::call("late", vec![])]), lit_l(u)),
        40 => E::List(vec![E::call("late", vec![]), E::call("late", vec![])]),
        41 => E::Select(b(E::var("m0")), "late".into()),
        42 => E::Cond(b(E::var("b0")), b(E::call("late", vec![])), b(E::Lit(V::Int(0)))),
        // the same shared value on both sides, one level down
        43 => E::bin(Op::Eq, E::List(vec![E::var("nl")]), E::List(vec![E::var("nl")])),
        44 => E::bin(Op::Eq, E::Map(vec![(E::Lit(V::s("k")), E::var("nl"))]), E::Map(vec![(E::Lit(V::s("k")), E::var("nl"))])),
        45 => E::bin(Op::In, E::List(vec![E::var("nl")]), E::List(vec![E::List(vec![E::var("nl")])])),
        46 => E::List(vec![E::bin(Op::Eq, E::var("nl"), E::var("nl")), E::mcall(E::List(vec![E::List(vec![E::var("nl")])]), "contains", vec![E::List(vec![E::var("nl")])])]),
        // membership in the long list, asked with ints, uints and doubles, once and many times in one execution
        47 => E::bin(Op::In, E::Lit(V::UInt(7)), E::var("big")),
        48 => E::Macro(Mac::Map, b(E::List((1..=12).map(|k| E::Lit(V::UInt(k))).collect())), "x".into(), vec![E::bin(Op::In, E::var("x"), E::var("big"))]),
        49 => E::List(vec![E::bin(Op::In, E::Lit(V::f(3.0)), E::var("big")), E::mcall(E::var("big"), "contains", vec![E::Lit(V::UInt(3))]), E::bin(Op::In, E::Lit(V::Int(3)), E::var("big"))]),
        // macro bodies that fail part-way through: nothing of the aborted fold stays behind
        50 => E::Macro(Mac::Map, b(l(u)), "x".into(), vec![E::bin(Op::Div, E::var("x"), E::Lit(V::Int(0)))]),
        51 => E::Macro(Mac::All, b(E::var("big")), "y".into(), vec![E::bin(Op::Lt, E::bin(Op::Div, E::Lit(V::Int(10)), E::bin(Op::Sub, E::var("y"), E::Lit(V::Int(3)))), E::Lit(V::Int(100)))]),
        52 => E::List(vec![E::var("x"), E::var("y")]),
        _ => {
            // a random typed program over the same context
            let vars: Vec<Var> = ctx
                .iter()
                .filter_map(|(n, v)| {
                    let ty = match (n.as_str(), v) {
                        ("l0" | "l1", _) => T::List(Box::new(T::Int)),
                        ("s0" | "s1", _) => T::Str,
                        ("b0", _) => T::Bool,
                        _ => return None,
                    };
                    Some(Var { name: n.clone(), ty, val: v.clone() })
                })
                .collect();
            let mut env = Env::new(&vars);
            let ty = u.pick(&[T::List(Box::new(T::Int)), T::Str, T::Bool, T::Int]).clone();
            gen_e(u, &ty, &mut env, 3)
        }
    }
}

/// tiny programs drawn from large parametrised families (hundreds of distinct source texts / string arguments):
/// whatever an implementation memoises per pattern, per literal or per program text gets filled, evicted and re-used
pub fn gen_keyed_prog(u: &mut Chooser) -> E {
    let word = |u: &mut Chooser| -> String { (0..u.below(4)).map(|_| *u.pick(&['a', 'b', 'c', ' '])).collect() };
    let s = |x: String| E::Lit(V::Str(x));
    match u.below(10) {
        // string literals that differ only in the amount and kind of white space inside them
        8 | 9 => {
            let ws = |u: &mut Chooser| u.pick(&[" ", "  ", "\t", " \t", "   ", "\u{a0}"]).to_string();
            let t = format!("a{}b{}c", ws(u), ws(u));
            if u.flip() {
                E::call("size", vec![s(t)])
            } else {
                E::bin(Op::Add, s(t), E::var("w0"))
            }
        }
        0 | 1 | 2 => {
            let pat = format!("{}{}{}", if u.flip() { "^" } else { "" }, word(u), if u.flip() { "$" } else { "" });
            let subject = if u.flip() { s(word(u)) } else { E::var("w0") };
            E::mcall(subject, "matches", vec![s(pat)])
        }
        3 => E::call("string", vec![E::call("duration", vec![s(format!("{}m{}s", u.below(50), u.below(60)))])]),
        4 => E::bin(Op::Add, E::call("int", vec![s(format!("{}", u.range(-300, 300)))]), E::Lit(V::Int(1))),
        5 => E::bin(Op::Add, E::call("string", vec![E::Lit(V::Int(u.range(-300, 300)))]), E::var("w0")),
        6 => E::mcall(E::call("timestamp", vec![s(format!("20{:02}-{:02}-{:02}T00:00:00Z", u.below(40), 1 + u.below(12), 1 + u.below(28)))]), "getDayOfYear", vec![]),
        _ => E::mcall(s(word(u)), if u.flip() { "startsWith" } else { "contains" }, vec![s(word(u))]),
    }
}

/// many distinct tiny programs, each executed several times with many others in between
pub fn gen_wide_history(u: &mut Chooser) -> History {
    let w0: String = (0..u.below(5)).map(|_| *u.pick(&['a', 'b', 'c', ' '])).collect();
    let ctx = vec![("w0".to_string(), V::Str(w0)), ("s0".to_string(), V::s("p")), ("s1".to_string(), V::s("q")), ("l0".to_string(), V::List(vec![])), ("l1".to_string(), V::List(vec![V::Int(1)]))];
    let np = 20 + u.below(41);
    let programs: Vec<E> = (0..np).map(|_| gen_keyed_prog(u)).collect();
    let ns = 60 + u.below(141);
    let steps = (0..ns).map(|_| Step::Exec(u.below(np))).collect();
    History { ctx, programs, steps }
}

pub fn gen_history(u: &mut Chooser) -> History {
    let ctx = gen_ctx(u);
    let np = 1 + u.below(6);
    let programs: Vec<E> = (0..np).map(|_| gen_prog(u, &ctx)).collect();
    let ns = 2 + u.below(49);
    let mut steps: Vec<Step> = (0..ns).map(|_| if u.chance(1, 5) { Step::Snapshot(u.below(ctx.len())) } else { Step::Exec(u.below(np)) }).collect();
    if u.chance(1, 3) {
        let at = u.below(steps.len() + 1);
        steps.insert(at, Step::Register);
    }
    if u.chance(1, 3) {
        // a long-lived inner scope from some point on, with one to three re-bindings after executions have looked the names up
        let at = u.below(steps.len() / 2 + 1);
        steps.insert(at, Step::OpenScope);
        for _ in 0..1 + u.below(3) {
            let pos = at + 1 + u.below(steps.len() - at);
            steps.insert(pos, Step::Shadow(u.below(16) as u8));
        }
    }
    History { ctx, programs, steps }
}

struct HState<'h> {
    h: &'h History,
    progs: Vec<(String, Program, String)>,
    /// the bindings a program sees (later entries shadow earlier ones of the same name)
    h_ctx: Vec<(String, V)>,
    /// the root context's own bindings: no execution and no inner scope ever changes them
    root_model: Vec<(String, V)>,
    first: Vec<Option<R>>,
    late_registered: bool,
    /// every value obtained so far (real interpreter values sharing Arcs with whatever produced them) with its deep model copy
    kept: Vec<(String, Value, V)>,
    reexec: usize,
    concat_reexec_with_kept: bool,
}

impl HState<'_> {
    fn exec(&mut self, k: usize, i: usize, ctx: &Context) -> Result<(), String> {
        let h = self.h;
        let (src, p, _) = &self.progs[i];
        let res = match guard(|| p.execute(ctx)) {
            Ok(r) => r,
            Err(pn) => return Err(format!("step {k}: `{src}` {}", pn.short())),
        };
        let r = sut::from_result(res.clone());
        // every execution, first or repeated, must be what the program yields "alone": the reference evaluator's result
        let cf: Vec<(String, V)> = if self.late_registered { vec![("late".to_string(), V::Int(42))] } else { vec![] };
        let variants = crate::props::c03::model_variants_with(&h.programs[i], &self.h_ctx, &vec![], false, &cf);
        let mut order_dependent = false;
        match &variants[0].0 {
            Err(crate::model::eval::Stop::Unsupported(why)) => {
                // ranging over a map with several entries: results may legitimately differ between executions
                // ("up to the unspecified iteration order of maps")
                order_dependent = why.contains("multi-entry map");
            }
            model => {
                if !variants.iter().any(|(m, _)| crate::props::c03::agree(m, &r)) {
                    return Err(format!("step {k}: `{src}` yields {} in this history; executed alone against this context the reference semantics give {:?} (earlier steps: {:?})", r.show(), model, &h.steps[..k]));
                }
            }
        }
        // a macro ranging over a map with several entries visits them in an unspecified order that may differ from one
        // execution to the next ("up to the unspecified iteration order of maps"): decided from the program text and
        // the context, independently of whether the reference evaluator covers the program
        let multi = |v: &V| v.any(&|x| matches!(x, V::Map(es) if es.len() >= 2));
        if h.programs[i].any(&|x| matches!(x, E::Macro(..))) && (h.programs[i].any(&|x| matches!(x, E::Map(es) if es.len() >= 2)) || self.h_ctx.iter().any(|(n, v)| multi(v) && h.programs[i].any(&|x| matches!(x, E::Var(m) if m == n)))) {
            order_dependent = true;
        }
        match &self.first[i] {
            None => self.first[i] = Some(r),
            Some(f) => {
                self.reexec += 1;
                // (an order-dependent result can differ arbitrarily - `m.filter(..)[0]` - so it is not compared at all)
                if !order_dependent && !same_result(f, &r) {
                    return Err(format!("step {k}: executing `{src}` again against the unchanged context gives {}, the first execution gave {} (context {})", r.show(), f.show(), sut::trunc(&format!("{:?}", self.h_ctx), 500)));
                }
                let appends = h.programs[i].any(&|x| matches!(x, E::Bin(Op::Add, ..) | E::Macro(..)));
                if appends && !self.kept.is_empty() {
                    self.concat_reexec_with_kept = true;
                }
            }
        }
        if let Ok(v) = res {
            let m = from_cel(&v);
            self.kept.push((format!("result of `{src}` at step {k}"), v, m));
        }
        Ok(())
    }

    fn snapshot(&mut self, k: usize, vi: usize, ctx: &Context) {
        let name = self.h_ctx[vi % self.h_ctx.len()].0.clone();
        if let Ok(v) = ctx.get_variable(name.as_str()) {
            let m = from_cel(&v);
            self.kept.push((format!("get_variable({name}) at step {k}"), v, m));
        }
    }

    /// results of programs that mention `name` legitimately change from here on
    fn forget(&mut self, mentions: &dyn Fn(&E) -> bool) {
        for (i, e) in self.h.programs.iter().enumerate() {
            if e.any(mentions) {
                self.first[i] = None;
            }
        }
    }

    fn invariants(&self, k: usize, st: &Step, root: &Context, scope: Option<&Context>) -> Result<(), String> {
        let srcs = || self.progs.iter().map(|p| &p.0).collect::<Vec<_>>();
        for (name, orig) in &self.root_model {
            match root.get_variable(name.as_str()) {
                Ok(v) if same(&from_cel(&v), orig) => {}
                other => return Err(format!("after step {k} ({st:?}) the context variable {name} reads {:?}, it was {orig:?} before the first execution; programs {:?}", other.as_ref().map(from_cel), srcs())),
            }
        }
        if let Some(sc) = scope {
            // what the long-lived inner scope answers: its own latest binding of a name, else the root's
            for (i, (name, want)) in self.h_ctx.iter().enumerate() {
                if self.h_ctx[i + 1..].iter().any(|(n, _)| n == name) {
                    continue;
                }
                match sc.get_variable(name.as_str()) {
                    Ok(v) if same(&from_cel(&v), want) => {}
                    other => return Err(format!("after step {k} ({st:?}) the inner scope answers {:?} for {name}; its innermost binding is {want:?}", other.as_ref().map(from_cel))),
                }
            }
        }
        for (what, v, m) in &self.kept {
            if !same(&from_cel(v), m) {
                return Err(format!("after step {k} ({st:?}) the value kept from {what} changed: it was {m:?}, it now reads {:?}; programs {:?}", from_cel(v), srcs()));
            }
        }
        for (src, p, dbg) in &self.progs {
            if format!("{p:?}") != *dbg {
                return Err(format!("after step {k} the program `{src}` itself changed"));
            }
        }
        Ok(())
    }
}

pub fn check_history(h: &History) -> Outcome {
    if h.ctx.iter().any(|(_, v)| to_cel(v).is_none()) {
        return Outcome::Skip("not-representable");
    }
    let mut progs: Vec<(String, Program, String)> = vec![];
    for e in &h.programs {
        let src = e.render();
        match sut::compile(&src) {
            Ok(Ok(p)) => {
                let dbg = format!("{p:?}");
                progs.push((src, p, dbg));
            }
            Ok(Err(_)) => return Outcome::Skip("does-not-compile"),
            Err(p) => return fail(format!("compile `{src}` {}", p.short())),
        }
    }
    // `acc` and `lacc` are bound to the *results* of concatenations executed beforehand: such values share their
    // (over-allocated) buffers with whatever the host still holds
    let mut ctx = sut::ctx_with(&h.ctx);
    let mut model_ctx = h.ctx.clone();
    let mut seed_values: Vec<(String, Value, V)> = vec![];
    for (name, src) in [("acc", "s0 + s1 + 'x'"), ("lacc", "l0 + l1 + [0]")] {
        if let Ok(Ok(p)) = sut::compile(src) {
            if let Ok(Ok(v)) = guard(|| p.execute(&ctx)) {
                let m = from_cel(&v);
                ctx.add_variable_from_value(name, v.clone());
                model_ctx.push((name.to_string(), m.clone()));
                seed_values.push((format!("the host's copy of {name}"), v, m));
            }
        }
    }
    let n = progs.len();
    let mut st = HState { h, progs, root_model: model_ctx.clone(), h_ctx: model_ctx, first: vec![None; n], late_registered: false, kept: seed_values, reexec: 0, concat_reexec_with_kept: false };
    // phase 1: everything runs against the root context, up to the step (if any) that opens a long-lived inner scope
    let open_at = h.steps.iter().position(|s| matches!(s, Step::OpenScope)).unwrap_or(h.steps.len());
    for (k, step) in h.steps.iter().enumerate().take(open_at) {
        let r = match step {
            Step::Exec(i) => st.exec(k, *i, &ctx),
            Step::Register => {
                if !st.late_registered {
                    ctx.add_function("late", || 42i64);
                    st.late_registered = true;
                    st.forget(&|x| matches!(x, E::Call(n, ..) if n == "late") || matches!(x, E::Select(_, f) if f == "late"));
                }
                Ok(())
            }
            Step::Snapshot(vi) => {
                st.snapshot(k, *vi, &ctx);
                Ok(())
            }
            Step::OpenScope | Step::Shadow(_) => Ok(()),
        };
        if let Err(m) = r.and_then(|_| st.invariants(k, step, &ctx, None)) {
            return fail(m);
        }
    }
    // phase 2: the host keeps one inner scope, executes against it, and now and then binds a name in it that the root
    // (or the scope itself) already binds
    let mut scoped = false;
    if open_at < h.steps.len() {
        scoped = true;
        let mut scope = ctx.new_inner_scope();
        for (k, step) in h.steps.iter().enumerate().skip(open_at + 1) {
            let r = match step {
                Step::Exec(i) => st.exec(k, *i, &scope),
                Step::Snapshot(vi) => {
                    st.snapshot(k, *vi, &scope);
                    Ok(())
                }
                Step::Shadow(n) => {
                    // names the programs read, rebound to another value of the same type
                    let (name, val) = match n % 4 {
                        0 => ("x", V::Int(5000 + *n as i64)),
                        1 => ("s0", V::Str(format!("shadow{n}"))),
                        2 => ("l0", V::List(vec![V::Int(*n as i64), V::Int(1)])),
                        _ => ("b0", V::Bool(n % 8 < 4)),
                    };
                    if n % 2 == 0 {
                        scope.add_variable_from_value(name, to_cel(&val).unwrap());
                    } else if scope.add_variable(name, sut::SerdeV(&val)).is_err() {
                        scope.add_variable_from_value(name, to_cel(&val).unwrap());
                    }
                    st.h_ctx.push((name.to_string(), val));
                    st.forget(&|x| matches!(x, E::Var(v) if v == name));
                    Ok(())
                }
                // functions live in the root, which the scope borrows: nothing to register here
                Step::Register | Step::OpenScope => Ok(()),
            };
            if let Err(m) = r.and_then(|_| st.invariants(k, step, &ctx, Some(&scope))) {
                return fail(m);
            }
        }
    }
    let mut cl = vec!["history"];
    if st.concat_reexec_with_kept {
        cl.push("concatenating-program-re-executed-with-kept-results");
    }
    if st.reexec > 0 {
        cl.push("re-execution");
    }
    if scoped {
        cl.push("long-lived-inner-scope");
    }
    if h.programs.len() >= 20 && st.reexec >= 17 {
        cl.push("many-distinct-programs-re-executed");
    }
    pass_n(st.concat_reexec_with_kept || (h.programs.len() >= 20 && st.reexec >= 17), cl)
}

// ------------------------------------------------------------------------------------------------
// threads

#[derive(Clone, Debug, Serialize, Deserialize)]
pub struct ThreadCase {
    pub ctx: Vec<(String, V)>,
    pub programs: Vec<E>,
    /// per thread: own variables (bound in its inner scope) and the sequence of program indices with spin delays
    pub threads: Vec<(Vec<(String, V)>, Vec<(usize, u8)>)>,
    pub repeats: u8,
}

pub fn gen_thread_case(u: &mut Chooser) -> ThreadCase {
    let ctx = gen_ctx(u);
    let np = 1 + u.below(40);
    let mut programs: Vec<E> = (0..np).map(|_| gen_prog(u, &ctx)).collect();
    // programs that read a per-thread variable `mine` (and shadow a root variable)
    programs.push(E::bin(Op::Add, E::var("mine"), E::var("l0")));
    programs.push(E::List(vec![E::var("mine"), E::var("s0")]));
    programs.push(E::Macro(Mac::Map, b(E::var("mine")), "x".into(), vec![E::bin(Op::Add, E::List(vec![E::var("x")]), E::var("l1"))]));
    let nt = 2 + u.below(15);
    let np = programs.len();
    let threads = (0..nt)
        .map(|t| {
            let mut own = vec![("mine".to_string(), V::List(vec![V::Int(t as i64), V::Int(u.range(0, 99))]))];
            if u.flip() {
                // shadow a root variable in the inner scope only
                own.push(("l1".to_string(), V::List(vec![V::Int(1000 + t as i64)])));
            }
            let steps = (0..1 + u.below(200)).map(|_| (u.below(np), u.below(4) as u8)).collect();
            (own, steps)
        })
        .collect();
    ThreadCase { ctx, programs, threads, repeats: 1 + u.below(3) as u8 }
}

pub fn check_threads(c: &ThreadCase) -> Outcome {
    if c.ctx.iter().any(|(_, v)| to_cel(v).is_none()) {
        return Outcome::Skip("not-representable");
    }
    let mut progs: Vec<Program> = vec![];
    let mut srcs = vec![];
    for e in &c.programs {
        let src = e.render();
        match sut::compile(&src) {
            Ok(Ok(p)) => progs.push(p),
            Ok(Err(_)) => return Outcome::Skip("does-not-compile"),
            Err(p) => return fail(format!("compile `{src}` {}", p.short())),
        }
        srcs.push(src);
    }
    let root = sut::ctx_with(&c.ctx);
    // expected results: each thread's sequence executed alone, with the same bindings
    let run_alone = |own: &[(String, V)], steps: &[(usize, u8)]| -> Vec<R> {
        let mut scope = root.new_inner_scope();
        for (n, v) in own {
            scope.add_variable_from_value(n.clone(), to_cel(v).unwrap());
        }
        steps.iter().map(|(i, _)| sut::exec(&progs[*i], &scope)).collect()
    };
    let expected: Vec<Vec<R>> = c.threads.iter().map(|(own, steps)| run_alone(own, steps)).collect();
    if let Some(p) = expected.iter().flatten().find(|r| r.is_panic()) {
        return fail(format!("sequential reference run: {}", p.show()));
    }
    let mut overlap_seen = false;
    for rep in 0..c.repeats {
        let running: Vec<AtomicUsize> = (0..progs.len()).map(|_| AtomicUsize::new(0)).collect();
        let overlap = AtomicUsize::new(0);
        let barrier = Barrier::new(c.threads.len());
        let results: Vec<Result<Vec<R>, String>> = std::thread::scope(|s| {
            let hs: Vec<_> = c
                .threads
                .iter()
                .map(|(own, steps)| {
                    let (root, progs, running, overlap, barrier) = (&root, &progs, &running, &overlap, &barrier);
                    std::thread::Builder::new()
                        .stack_size(crate::engine::STACK)
                        .spawn_scoped(s, move || {
                            let mut scope = root.new_inner_scope();
                            for (n, v) in own {
                                scope.add_variable_from_value(n.clone(), to_cel(v).unwrap());
                            }
                            barrier.wait();
                            let mut out = vec![];
                            for (i, delay) in steps {
                                for _ in 0..(*delay as u32 * 50) {
                                    std::hint::spin_loop();
                                }
                                if *delay == 3 {
                                    std::thread::yield_now();
                                }
                                if running[*i].fetch_add(1, Ordering::SeqCst) >= 1 {
                                    overlap.fetch_add(1, Ordering::Relaxed);
                                }
                                let r = sut::exec(&progs[*i], &scope);
                                running[*i].fetch_sub(1, Ordering::SeqCst);
                                out.push(r);
                            }
                            out
                        })
                        .expect("spawn")
                })
                .collect();
            hs.into_iter().map(|h| h.join().map_err(|_| "a worker thread panicked outside the interpreter".to_string())).collect()
        });
        overlap_seen |= overlap.load(Ordering::Relaxed) > 0;
        for (t, res) in results.iter().enumerate() {
            let got = match res {
                Ok(g) => g,
                Err(e) => return fail(e.clone()),
            };
            for (k, (g, e)) in got.iter().zip(&expected[t]).enumerate() {
                let (i, _) = c.threads[t].1[k];
                // a macro ranging over a map *literal* iterates a freshly built map each time: its order is unspecified
                let order_dependent = c.programs[i].any(&|x| matches!(x, E::Macro(_, r, _, _) if r.any(&|y| matches!(y, E::Map(es) if es.len() > 1))));
                if !order_dependent && !same_result(g, e) {
                    return fail(format!("repetition {rep}, thread {t} of {}, step {k}: `{}` yields {} while running concurrently, alone it yields {}", c.threads.len(), srcs[i], g.show(), e.show()));
                }
            }
        }
        for (name, orig) in &c.ctx {
            match root.get_variable(name.as_str()) {
                Ok(v) if same(&from_cel(&v), orig) => {}
                other => return fail(format!("after concurrent execution the shared root variable {name} reads {:?}, it was {orig:?}", other.as_ref().map(from_cel))),
            }
        }
    }
    pass_n(overlap_seen, vec![if overlap_seen { "threads-overlapped-on-a-program" } else { "threads-no-overlap-observed" }])
}

pub fn run(r: &mut Runner) {
    r.rule = "histories: a generated context (lists, nested lists, strings, a map holding lists) and up to 6 programs biased to what can alias buffers (x + [..], x + x, [x, x + y], s + 'c', (x + y) + z, concatenation inside macro bodies over context variables, \
              index / select results concatenated, random typed programs); a second family runs 20-60 distinct tiny programs from large parametrised families (matches with ~340 patterns, duration / timestamp / int / string of generated literals) 60-200 times per history; a history is up to 50 steps Exec(i) / Snapshot(var); every result and snapshot (real interpreter values sharing Arcs) is kept together with a deep model copy. After every step: each context variable read back \
              equals its model copy, every kept value still equals its model copy, the program's Debug rendering is unchanged, and re-executing a program gives a result equal to its first (maps as sets, NaN as a class, errors included). \
              threads: 2-16 scoped threads share one program set (<= 43) and one root context, each binds its own variables in an inner scope and executes up to 200 program indices with generated spin / yield delays behind a start barrier, repeated; every result must equal the \
              single-threaded reference and the root must be unchanged. A separate crate asserts Send + Sync for Program, Context, Value, ExecutionError at compile time. Non-trivial: a concatenating / macro program re-executed while earlier results are kept; a thread run in which two threads executed the same program at the same time."
        .into();
    r.assumptions = vec![
        "the scheduler is the operating system's: the thread half diversifies interleavings by seed but cannot enumerate them (DESIGN §7)".into(),
        "the interpreter has no unsafe code, interior mutability or statics; races would need newly introduced shared mutable state, which the Send/Sync guard or the result comparison exposes".into(),
    ];
    let n = r.tier.n(2_000, 100_000);
    r.random("execution-histories", 400, n, gen_history, check_history);
    // content-keyed hidden state (memoised patterns, interned literals, ...): 20-60 distinct tiny programs from large
    // parametrised families, 60-200 executions each history; every execution is compared with the reference semantics
    // and with the program's first result
    let n = r.tier.n(600, 20_000);
    r.random("many-small-programs-repeated", 700, n, gen_wide_history, check_history);
    // thread configurations: each of the 16 shard processes runs its share, so up to 16 x 16 threads contend for the cores
    // (oversubscription adds preemption points); a failing configuration is shrunk like any other case
    let cfgs = r.tier.n(13, 320);
    r.shrink_budget = 40; // every shrink step runs up to 16 threads
    r.random("thread-stress", 6000, cfgs, gen_thread_case, check_threads);
    // a few threads each running a fold of several hundred thousand steps at the same time: what one execution may spend is
    // its own business, not shared with executions that happen to run concurrently
    r.random(
        "long-folds-concurrently",
        8,
        r.tier.n(1, 6),
        |u: &mut Chooser| {
            let n = 650 + u.below(150);
            let ctx = vec![("r".to_string(), V::List((0..n).map(|k| V::Int(k as i64)).collect()))];
            let body = |inner: E| E::Macro(Mac::All, b(E::var("r")), "x".into(), vec![inner]);
            let programs = vec![
                body(E::Macro(Mac::All, b(E::var("r")), "y".into(), vec![E::Lit(V::Bool(true))])),
                body(E::Not(b(E::Macro(Mac::Exists, b(E::var("r")), "y".into(), vec![E::bin(Op::Lt, E::var("y"), E::Lit(V::Int(0)))])))),
                E::call("size", vec![E::Macro(Mac::Map, b(E::var("r")), "x".into(), vec![E::call("size", vec![E::Macro(Mac::Filter, b(E::var("r")), "y".into(), vec![E::Lit(V::Bool(false))])])])]),
            ];
            let threads = (0..3 + u.below(3)).map(|t| (vec![], vec![(t % 3, 0u8), ((t + 1) % 3, 0u8)])).collect();
            ThreadCase { ctx, programs, threads, repeats: 1 }
        },
        check_threads,
    );
    r.shrink_budget = 3000;
    r.expect_class("concatenating-program-re-executed-with-kept-results", 1000);
    r.expect_class("threads-overlapped-on-a-program", 20);
}
