//! C11 — variables resolve to the innermost binding and scopes never leak.

use crate::chooser::Chooser;
use crate::engine::{fail, guard, pass_n, Outcome, Runner};
use crate::gen::typed::{gen_ctx, gen_e, gen_type, Env, TypedCase, Var, T};
use crate::model::eval::{eval, St, Stop};
use crate::model::expr::E;
use crate::model::{same, ErrClass, V};
use crate::props::c03::{agree, result_class};
use crate::sut::{self, from_cel, to_cel, R};
use cel_interpreter::{Context, ExecutionError, Program, Value};
use serde::{Deserialize, Serialize};

pub const NAMES: [&str; 3] = ["x", "y", "z"];

#[derive(Clone, Copy, Debug, Serialize, Deserialize, PartialEq)]
pub enum Op {
    /// name index, value index, true = add_variable (serde path), false = add_variable_from_value
    Define(u8, u8, bool),
    Open,
    Close,
    /// (random histories only) the host executes, against the current scope, a macro over the name whose body fails part-way
    /// (kind 0) or succeeds (kind 1): afterwards every name answers as before
    Fold(u8, u8),
}

#[derive(Clone, Debug, Serialize, Deserialize)]
pub struct History {
    pub ops: Vec<Op>,
    /// also register functions named x, y, z at the root and evaluate `n` and `n()` side by side
    pub functions: bool,
}

fn value(i: u8) -> V {
    match i {
        0 => V::Int(10),
        1 => V::Str("s".into()),
        2 => V::List(vec![V::Int(1), V::Int(2)]),
        // the same number as value 0 in the other numeric types (random histories only)
        4 => V::UInt(10),
        5 => V::f(10.0),
        // binding a name to null is a binding like any other
        _ => V::Null,
    }
}

/// value index 6 (random histories only): host data whose conversion fails - `add_variable` returns the error and
/// the name is bound (or not bound) exactly as before
struct Unconvertible;
impl serde::Serialize for Unconvertible {
    fn serialize<Z: serde::Serializer>(&self, z: Z) -> Result<Z::Ok, Z::Error> {
        use serde::ser::SerializeMap;
        // a map with a key no CEL map can have
        let mut m = z.serialize_map(Some(1))?;
        m.serialize_entry(&Option::<String>::None, &1i64)?;
        m.end()
    }
}

type Scopes = Vec<Vec<(usize, V)>>;

fn model_lookup(m: &Scopes, n: usize) -> Option<&V> {
    for s in m.iter().rev() {
        if let Some((_, v)) = s.iter().rev().find(|(k, _)| *k == n) {
            return Some(v);
        }
    }
    None
}

struct Progs {
    vars: Vec<Program>,
    calls: Vec<Program>,
}

fn observe(ctx: &Context, m: &Scopes, h: &History, progs: &Progs, at: &str) -> Result<Vec<Option<V>>, String> {
    let mut snap = vec![];
    for (i, n) in NAMES.iter().enumerate() {
        let got = ctx.get_variable(*n);
        let exp = model_lookup(m, i);
        match (&got, exp) {
            (Ok(g), Some(e)) if same(&from_cel(g), e) => {}
            (Err(ExecutionError::UndeclaredReference(r)), None) if r.as_str() == *n => {}
            _ => return Err(format!("{at}: get_variable({n}) = {:?}, innermost binding in the model = {:?}", got.as_ref().map(from_cel), exp)),
        }
        // the same through a program consisting of the bare name
        let pr = sut::exec(&progs.vars[i], ctx);
        match (&pr, exp) {
            (R::Val(g), Some(e)) if same(g, e) => {}
            (R::Err(ErrClass::Undeclared(r), _), None) if r == n => {}
            _ => return Err(format!("{at}: program `{n}` = {}, innermost binding in the model = {:?}", pr.show(), exp)),
        }
        if h.functions {
            // a function of the same name stays reachable and does not hide the variable
            let fr = sut::exec(&progs.calls[i], ctx);
            match &fr {
                R::Val(V::Int(k)) if *k == 100 + i as i64 => {}
                _ => return Err(format!("{at}: program `{n}()` = {}, expected the registered function's result {}", fr.show(), 100 + i)),
            }
        }
        snap.push(exp.cloned());
    }
    Ok(snap)
}

fn run_scope(ctx: &mut Context, h: &History, pos: &mut usize, m: &mut Scopes, progs: &Progs, stats: &mut (u32, u32)) -> Result<(), String> {
    while *pos < h.ops.len() {
        let op = h.ops[*pos];
        *pos += 1;
        match op {
            Op::Define(n, 6, _) => {
                match guard(|| ctx.add_variable(NAMES[n as usize], Unconvertible).is_err()) {
                    Ok(true) => {}
                    Ok(false) => return Err(format!("add_variable({}, <a map with a None key>) succeeded", NAMES[n as usize])),
                    Err(p) => return Err(format!("add_variable({}, <a map with a None key>) {}", NAMES[n as usize], p.short())),
                }
                observe(ctx, m, h, progs, &format!("after op {} {:?} (a conversion that fails)", *pos - 1, op))?;
            }
            Op::Define(n, v, how) => {
                let val = value(v);
                let cv = to_cel(&val).unwrap();
                if how {
                    // serde path (TryIntoValue for Value is the identity)
                    ctx.add_variable(NAMES[n as usize], cv).map_err(|e| format!("add_variable failed: {e}"))?;
                } else {
                    ctx.add_variable_from_value(NAMES[n as usize], cv);
                }
                if m.len() > 1 && m[..m.len() - 1].iter().any(|s| s.iter().any(|(k, _)| *k == n as usize)) {
                    stats.0 += 1; // redefinition in an inner scope of a name defined outside
                }
                m.last_mut().unwrap().push((n as usize, val));
                observe(ctx, m, h, progs, &format!("after op {} {:?}", *pos - 1, op))?;
            }
            Op::Fold(n, kind) => {
                let name = NAMES[n as usize % 3];
                let src = if kind % 2 == 0 { format!("[7, 0, 8].map({name}, 56 / {name})") } else { format!("[7, 8].all({name}, {name} > 0) && [[1], [2]].exists({name}, {name}.size() == 1)") };
                if let Ok(Ok(p)) = sut::compile(&src) {
                    let _ = guard(|| p.execute(ctx).map(|_| ()).map_err(|_| ()));
                }
                observe(ctx, m, h, progs, &format!("after executing `{src}` against the current scope"))?;
            }
            Op::Open => {
                let before = observe(ctx, m, h, progs, "before open")?;
                {
                    let mut child = ctx.new_inner_scope();
                    m.push(vec![]);
                    observe(&child, m, h, progs, "just after open")?;
                    run_scope(&mut child, h, pos, m, progs, stats)?;
                    m.pop();
                }
                stats.1 += 1;
                let after = observe(ctx, m, h, progs, "after the inner scope was dropped")?;
                for i in 0..3 {
                    let ok = match (&before[i], &after[i]) {
                        (None, None) => true,
                        (Some(a), Some(b)) => same(a, b),
                        _ => false,
                    };
                    if !ok {
                        return Err(format!("inner scope altered its parent: {} was {:?}, is {:?}", NAMES[i], before[i], after[i]));
                    }
                }
            }
            Op::Close => return Ok(()),
        }
    }
    Ok(())
}

pub fn check_history(h: &History) -> Outcome {
    let r = guard(|| {
        let mut root = Context::default();
        if h.functions {
            root.add_function("x", || 100i64);
            root.add_function("y", || 101i64);
            root.add_function("z", || 102i64);
        }
        let progs = Progs { vars: NAMES.iter().map(|n| Program::compile(n).unwrap()).collect(), calls: NAMES.iter().map(|n| Program::compile(&format!("{n}()")).unwrap()).collect() };
        let mut m: Scopes = vec![vec![]];
        let mut pos = 0;
        let mut stats = (0u32, 0u32);
        // a `Close` at depth 0 simply ends the history
        let res = run_scope(&mut root, h, &mut pos, &mut m, &progs, &mut stats);
        (res, stats)
    });
    match r {
        Err(p) => fail(format!("history {:?}: {}", h.ops, p.short())),
        Ok((Err(e), _)) => fail(format!("history {:?} (functions={}): {e}", h.ops, h.functions)),
        Ok((Ok(()), stats)) => {
            let mut cl = vec![if h.functions { "with-same-named-functions" } else { "variables-only" }];
            if stats.0 > 0 {
                cl.push("inner-redefinition-of-outer-name");
            }
            if stats.1 > 0 {
                cl.push("scope-opened-and-dropped");
            }
            pass_n(stats.0 > 0, cl)
        }
    }
}

const SYMS: u64 = 8;
fn sym(k: u64, pos: usize) -> Op {
    match k {
        0..=5 => Op::Define((k % 3) as u8, (k / 3) as u8 + (pos as u8 % 2) * 2, pos % 2 == 0),
        6 => Op::Open,
        _ => Op::Close,
    }
}

/// decode index -> sequence of `len` symbols; None when not well nested (Close at depth 0, Open beyond depth 3)
fn nth_history(mut i: u64, len: usize) -> Option<Vec<Op>> {
    let mut ops = vec![];
    let mut depth = 0;
    for p in 0..len {
        let s = sym(i % SYMS, p);
        i /= SYMS;
        match s {
            Op::Open => {
                if depth >= 3 {
                    return None;
                }
                depth += 1;
            }
            Op::Close => {
                if depth == 0 {
                    return None;
                }
                depth -= 1;
            }
            _ => {}
        }
        ops.push(s);
    }
    Some(ops)
}

// ------------------------------------------------------------------------------------------------
// programs

#[derive(Clone, Debug, Serialize, Deserialize)]
pub struct Tmpl {
    pub template: usize,
    pub names: [u8; 3],
    /// which of x, y, z are context variables (bit mask) and whether same-named functions exist
    pub defined: u8,
    pub functions: bool,
}

pub const TEMPLATES: [&str; 27] = [
    "A + [1, 2].map(A, A * 2)[0] + A",
    "[[1, 2], [3]].map(A, A.map(B, B + 1))",
    "[1].map(A, A)[0] + A",
    "[1, 2].map(A, [10, 20].map(B, [100].map(C, A + B + C)))",
    "[1, 2].all(A, [A].exists(B, B == A) && A > 0) ? A : B",
    "[1, 2].filter(A, A > 1).map(B, A + B)",
    "[5].map(A, [6].map(A, [7].map(A, A)))[0][0][0] + A",
    "[1, 2, 3].exists_one(A, [A, B].filter(C, C == A).size() == 2)",
    "[A].map(B, [B].map(A, A + 1)[0] + A)[0] + B",
    "[1, 2].map(A, A)[1] + [3].map(B, A)[0]",
    "has({'k': A}.k) && [A].all(A, A == A) ? [B].map(B, B)[0] : C",
    "[[1], [2]].map(A, A.filter(A, A > 1).size()) + [A]",
    // the function named like the iteration variable stays callable inside the body (only meaningful with functions registered)
    "[1, 2].map(A, A() + A)",
    "[1, 2].map(A, [3].map(B, A() + B() + A + B))",
    "[A(), [5].map(A, A)[0], [A()].map(B, B + A())[0]]",
    // elements that are numerically equal to, but of another type than, the outer binding of the name / the previous element:
    // the body must see the element itself (the results keep the elements' types)
    "[1000u, 2000.0, 3000u, 1000.0, 2000u, 3000.0].map(A, [A])",
    "[1, 1u, 1.0, 1, 1.0, 1u].map(A, [A])",
    "[2].map(A, [2u, 2.0, 2].map(A, [A]))",
    "[1000u, 2000u].map(A, [[1000.0, 2000.0, 3000.0].map(B, [A, B]), [A]])",
    // the body mentions the iteration variable on both sides of an equality
    "[0, 2, 3].exists(A, A == A * A)",
    "[2, 3].map(A, [1, 5].exists(A, A == A * A))",
    "[1, 5, 25].exists(B, A * A == B) || [1, 5].all(A, [1, 25].exists(B, B == A * A))",
    // a one-element list over an outer variable, whose name a nested macro rebinds while the body still mentions the element
    "[B].map(A, [10, 20].map(B, A + B))",
    "[A].map(B, [7].map(A, [A, B]))",
    "[B].map(A, [[1], [2, 3]].map(B, [A, B.size()]))",
    // a second stage whose body mentions the first stage's variable name: there it means the outer binding (or nothing)
    "[1, 2, 3].map(A, A * 2).filter(B, B < A)",
    "[1, 2, 3].filter(A, A > 1).map(B, [A, B])",
];

fn instantiate(t: &Tmpl) -> String {
    let mut s = String::new();
    for c in TEMPLATES[t.template].chars() {
        match c {
            'A' => s.push_str(NAMES[t.names[0] as usize]),
            'B' => s.push_str(NAMES[t.names[1] as usize]),
            'C' => s.push_str(NAMES[t.names[2] as usize]),
            c => s.push(c),
        }
    }
    s
}

/// tiny parser for the template language into `E` (so the reference evaluator can run it): we avoid
/// writing a CEL parser by building the trees directly instead
fn template_expr(t: &Tmpl) -> E {
    use crate::model::expr::{b, Mac, Op as O};
    let n = |i: usize| NAMES[t.names[i] as usize].to_string();
    let (a, bb, c) = (n(0), n(1), n(2));
    let v = |s: &String| E::Var(s.clone());
    let i = |k: i64| E::Lit(V::Int(k));
    let u = |k: u64| E::Lit(V::UInt(k));
    let f = |k: f64| E::Lit(V::f(k));
    let l = |xs: Vec<E>| E::List(xs);
    let mac = |m: Mac, r: E, var: &String, body: E| E::Macro(m, b(r), var.clone(), vec![body]);
    let idx = |e: E, k: i64| E::Index(b(e), b(i(k)));
    match t.template {
        0 => E::bin(O::Add, E::bin(O::Add, v(&a), idx(mac(Mac::Map, l(vec![i(1), i(2)]), &a, E::bin(O::Mul, v(&a), i(2))), 0)), v(&a)),
        1 => mac(Mac::Map, l(vec![l(vec![i(1), i(2)]), l(vec![i(3)])]), &a, mac(Mac::Map, v(&a), &bb, E::bin(O::Add, v(&bb), i(1)))),
        2 => E::bin(O::Add, idx(mac(Mac::Map, l(vec![i(1)]), &a, v(&a)), 0), v(&a)),
        3 => mac(Mac::Map, l(vec![i(1), i(2)]), &a, mac(Mac::Map, l(vec![i(10), i(20)]), &bb, mac(Mac::Map, l(vec![i(100)]), &c, E::bin(O::Add, E::bin(O::Add, v(&a), v(&bb)), v(&c))))),
        4 => E::Cond(
            b(mac(Mac::All, l(vec![i(1), i(2)]), &a, E::bin(O::And, mac(Mac::Exists, l(vec![v(&a)]), &bb, E::bin(O::Eq, v(&bb), v(&a))), E::bin(O::Gt, v(&a), i(0))))),
            b(v(&a)),
            b(v(&bb)),
        ),
        5 => mac(Mac::Map, mac(Mac::Filter, l(vec![i(1), i(2)]), &a, E::bin(O::Gt, v(&a), i(1))), &bb, E::bin(O::Add, v(&a), v(&bb))),
        6 => E::bin(O::Add, idx(idx(idx(mac(Mac::Map, l(vec![i(5)]), &a, mac(Mac::Map, l(vec![i(6)]), &a, mac(Mac::Map, l(vec![i(7)]), &a, v(&a)))), 0), 0), 0), v(&a)),
        7 => mac(
            Mac::ExistsOne,
            l(vec![i(1), i(2), i(3)]),
            &a,
            E::bin(O::Eq, E::mcall(mac(Mac::Filter, l(vec![v(&a), v(&bb)]), &c, E::bin(O::Eq, v(&c), v(&a))), "size", vec![]), i(2)),
        ),
        8 => E::bin(O::Add, idx(mac(Mac::Map, l(vec![v(&a)]), &bb, E::bin(O::Add, idx(mac(Mac::Map, l(vec![v(&bb)]), &a, E::bin(O::Add, v(&a), i(1))), 0), v(&a))), 0), v(&bb)),
        9 => E::bin(O::Add, idx(mac(Mac::Map, l(vec![i(1), i(2)]), &a, v(&a)), 1), idx(mac(Mac::Map, l(vec![i(3)]), &bb, v(&a)), 0)),
        10 => E::Cond(
            b(E::bin(O::And, E::Has(b(E::Map(vec![(E::Lit(V::s("k")), v(&a))])), "k".into()), mac(Mac::All, l(vec![v(&a)]), &a, E::bin(O::Eq, v(&a), v(&a))))),
            b(idx(mac(Mac::Map, l(vec![v(&bb)]), &bb, v(&bb)), 0)),
            b(v(&c)),
        ),
        11 => E::bin(O::Add, mac(Mac::Map, l(vec![l(vec![i(1)]), l(vec![i(2)])]), &a, E::mcall(mac(Mac::Filter, v(&a), &a, E::bin(O::Gt, v(&a), i(1))), "size", vec![])), l(vec![v(&a)])),
        12 => mac(Mac::Map, l(vec![i(1), i(2)]), &a, E::bin(O::Add, E::call(&a, vec![]), v(&a))),
        13 => mac(Mac::Map, l(vec![i(1), i(2)]), &a, mac(Mac::Map, l(vec![i(3)]), &bb, E::bin(O::Add, E::bin(O::Add, E::bin(O::Add, E::call(&a, vec![]), E::call(&bb, vec![])), v(&a)), v(&bb)))),
        14 => l(vec![E::call(&a, vec![]), idx(mac(Mac::Map, l(vec![i(5)]), &a, v(&a)), 0), idx(mac(Mac::Map, l(vec![E::call(&a, vec![])]), &bb, E::bin(O::Add, v(&bb), E::call(&a, vec![]))), 0)]),
        15 => mac(Mac::Map, l(vec![u(1000), f(2000.0), u(3000), f(1000.0), u(2000), f(3000.0)]), &a, l(vec![v(&a)])),
        16 => mac(Mac::Map, l(vec![i(1), u(1), f(1.0), i(1), f(1.0), u(1)]), &a, l(vec![v(&a)])),
        17 => mac(Mac::Map, l(vec![i(2)]), &a, mac(Mac::Map, l(vec![u(2), f(2.0), i(2)]), &a, l(vec![v(&a)]))),
        18 => mac(Mac::Map, l(vec![u(1000), u(2000)]), &a, l(vec![mac(Mac::Map, l(vec![f(1000.0), f(2000.0), f(3000.0)]), &bb, l(vec![v(&a), v(&bb)])), l(vec![v(&a)])])),
        19 => mac(Mac::Exists, l(vec![i(0), i(2), i(3)]), &a, E::bin(O::Eq, v(&a), E::bin(O::Mul, v(&a), v(&a)))),
        20 => mac(Mac::Map, l(vec![i(2), i(3)]), &a, mac(Mac::Exists, l(vec![i(1), i(5)]), &a, E::bin(O::Eq, v(&a), E::bin(O::Mul, v(&a), v(&a))))),
        22 => mac(Mac::Map, l(vec![v(&bb)]), &a, mac(Mac::Map, l(vec![i(10), i(20)]), &bb, E::bin(O::Add, v(&a), v(&bb)))),
        23 => mac(Mac::Map, l(vec![v(&a)]), &bb, mac(Mac::Map, l(vec![i(7)]), &a, l(vec![v(&a), v(&bb)]))),
        24 => mac(Mac::Map, l(vec![v(&bb)]), &a, mac(Mac::Map, l(vec![l(vec![i(1)]), l(vec![i(2), i(3)])]), &bb, l(vec![v(&a), E::mcall(v(&bb), "size", vec![])]))),
        25 => mac(Mac::Filter, mac(Mac::Map, l(vec![i(1), i(2), i(3)]), &a, E::bin(O::Mul, v(&a), i(2))), &bb, E::bin(O::Lt, v(&bb), v(&a))),
        26 => mac(Mac::Map, mac(Mac::Filter, l(vec![i(1), i(2), i(3)]), &a, E::bin(O::Gt, v(&a), i(1))), &bb, l(vec![v(&a), v(&bb)])),
        _ => E::bin(
            O::Or,
            mac(Mac::Exists, l(vec![i(1), i(5), i(25)]), &bb, E::bin(O::Eq, E::bin(O::Mul, v(&a), v(&a)), v(&bb))),
            mac(Mac::All, l(vec![i(1), i(5)]), &a, mac(Mac::Exists, l(vec![i(1), i(25)]), &bb, E::bin(O::Eq, v(&bb), E::bin(O::Mul, v(&a), v(&a))))),
        ),
    }
}

fn ctx_values(defined: u8) -> Vec<(String, V)> {
    let vals = [V::Int(1000), V::Int(2000), V::Int(3000)];
    (0..3).filter(|i| defined & (1 << i) != 0).map(|i| (NAMES[i].to_string(), vals[i].clone())).collect()
}

fn check_program(src: &str, e: &E, vars: &[(String, V)], functions: bool, extra_note: &str) -> Outcome {
    let cf: Vec<(String, V)> = if functions { vec![("x".to_string(), V::Int(100)), ("y".to_string(), V::Int(101)), ("z".to_string(), V::Int(102))] } else { vec![] };
    let variants = crate::props::c03::model_variants_with(e, vars, &vec![], false, &cf);
    if let Err(Stop::Unsupported(w)) = &variants[0].0 {
        return Outcome::Skip(w);
    }
    let prog = match sut::compile(src) {
        Ok(Ok(p)) => p,
        Ok(Err(e)) => return fail(format!("`{src}` does not compile: {e}")),
        Err(p) => return fail(format!("`{src}`: compile {}", p.short())),
    };
    let mut ctx = sut::ctx_with(vars);
    if functions {
        ctx.add_function("x", || 100i64);
        ctx.add_function("y", || 101i64);
        ctx.add_function("z", || 102i64);
    }
    let log = sut::new_log();
    sut::install_host(&mut ctx, &log, &vec![]);
    let got = sut::exec(&prog, &ctx);
    let Some((model, _)) = variants.iter().find(|(m, _)| agree(m, &got)) else {
        return fail(format!("`{src}` with {vars:?}{extra_note}: lexical scoping gives {:?}, interpreter gives {}", variants[0].0, got.show()));
    };
    let model = model.clone();
    // the context must still bind (or not bind) every name exactly as before
    for n in NAMES {
        let before = vars.iter().rev().find(|(k, _)| k == n).map(|(_, v)| v.clone());
        let after: Result<Value, ExecutionError> = ctx.get_variable(n);
        let ok = match (&before, &after) {
            (Some(b), Ok(a)) => same(b, &from_cel(a)),
            (None, Err(ExecutionError::UndeclaredReference(_))) => true,
            _ => false,
        };
        if !ok {
            return fail(format!("`{src}`: executing changed the context: {n} was {:?}, is {:?}", before, after.as_ref().map(from_cel)));
        }
    }
    // non-trivial: a binder shadows a live outer binding and the name is used inside and outside the binder
    let mut shadow = false;
    for n in NAMES {
        let bound_outside = vars.iter().any(|(k, _)| k == n);
        let binds = e.any(&|x| matches!(x, E::Macro(_, _, v, _) if v == n));
        let uses_total = e.count(&|x| matches!(x, E::Var(v) if v == n));
        let uses_inside: usize = {
            let mut k = 0;
            fn walk(e: &E, n: &str, inside: bool, k: &mut usize) {
                match e {
                    E::Var(v) if v == n && inside => *k += 1,
                    E::Macro(_, r, v, body) => {
                        walk(r, n, inside, k);
                        for b in body {
                            walk(b, n, inside || v == n, k);
                        }
                    }
                    other => {
                        for c in other.children() {
                            walk(c, n, inside, k);
                        }
                    }
                }
            }
            walk(e, n, false, &mut k);
            k
        };
        if bound_outside && binds && uses_inside > 0 && uses_total > uses_inside {
            shadow = true;
        }
    }
    let mut cl = vec![result_class(&model)];
    if shadow {
        cl.push("binder-shadows-live-outer-binding");
    }
    if e.count(&|x| matches!(x, E::Macro(..))) >= 2 {
        cl.push("nested-or-multiple-macros");
    }
    if functions {
        cl.push("with-same-named-functions");
    }
    pass_n(shadow, cl)
}

/// one compiled program executed against several contexts in turn: each execution sees that context's bindings only
#[derive(Clone, Debug, Serialize, Deserialize)]
pub struct Multi {
    pub program: u8,
    pub name: u8,
    /// per execution: the binding of the name (index into `multi_value`, 0 = not bound) and whether a same-named function is registered
    pub runs: Vec<(u8, bool)>,
}

fn multi_value(i: u8) -> Option<V> {
    match i {
        0 => None,
        1 => Some(V::List(vec![V::Int(1), V::Int(2)])),
        2 => Some(V::List(vec![V::Int(20)])),
        3 => Some(V::List(vec![])),
        4 => Some(V::Int(7)),
        _ => Some(V::List(vec![V::Int(-5), V::Int(0), V::Int(5)])),
    }
}

const MULTI_PROGRAMS: usize = 9;

fn multi_program(k: u8, a: &str) -> E {
    use crate::model::expr::{b, Mac, Op as O};
    let v = || E::Var(a.to_string());
    let i = |k: i64| E::Lit(V::Int(k));
    let mac = |m: Mac, r: E, body: E| E::Macro(m, b(r), a.to_string(), vec![body]);
    match k {
        0 => mac(Mac::Map, v(), E::bin(O::Mul, v(), i(2))),
        1 => mac(Mac::All, v(), E::bin(O::Gt, v(), i(0))),
        2 => mac(Mac::Map, mac(Mac::Filter, v(), E::bin(O::Gt, v(), i(1))), E::bin(O::Add, v(), i(1))),
        3 => mac(Mac::Exists, v(), E::bin(O::Eq, v(), i(20))),
        4 => mac(Mac::Map, E::List(vec![v()]), v()),
        5 => E::bin(O::Add, v(), v()),
        6 => E::call("size", vec![v()]),
        7 => E::List(vec![E::call(a, vec![]), i(1)]),
        _ => mac(Mac::ExistsOne, v(), E::bin(O::Gt, v(), i(1))),
    }
}

pub fn check_multi(c: &Multi) -> Outcome {
    let name = NAMES[c.name as usize % 3];
    let e = multi_program(c.program, name);
    let src = e.render();
    let prog = match sut::compile(&src) {
        Ok(Ok(p)) => p,
        Ok(Err(e)) => return fail(format!("`{src}` does not compile: {e}")),
        Err(p) => return fail(format!("`{src}`: compile {}", p.short())),
    };
    let mut distinct = std::collections::BTreeSet::new();
    for (k, (vi, func)) in c.runs.iter().enumerate() {
        let vars: Vec<(String, V)> = multi_value(*vi).map(|v| vec![(name.to_string(), v)]).unwrap_or_default();
        let cf: Vec<(String, V)> = if *func { vec![(name.to_string(), V::Int(100))] } else { vec![] };
        let variants = crate::props::c03::model_variants_with(&e, &vars, &vec![], false, &cf);
        if let Err(Stop::Unsupported(w)) = &variants[0].0 {
            return Outcome::Skip(w);
        }
        let mut ctx = sut::ctx_with(&vars);
        if *func {
            ctx.add_function(name, || 100i64);
        }
        let got = sut::exec(&prog, &ctx);
        if !variants.iter().any(|(m, _)| agree(m, &got)) {
            return fail(format!("execution {k} of the one compiled program `{src}` against {vars:?}{}: lexical scoping gives {:?}, interpreter gives {} (earlier executions ran against {:?})", if *func { " (+ a function of that name)" } else { "" }, variants[0].0, got.show(), &c.runs[..k]));
        }
        distinct.insert((*vi, *func));
    }
    pass_n(distinct.len() >= 2, vec![if distinct.len() >= 2 { "one-program-several-different-contexts" } else { "one-program-one-context" }])
}

pub fn check_template(t: &Tmpl) -> Outcome {
    let src = instantiate(t);
    let e = template_expr(t);
    check_program(&src, &e, &ctx_values(t.defined), t.functions, "")
}

pub fn check_random(c: &TypedCase) -> Outcome {
    let src = c.expr.render();
    check_program(&src, &c.expr, &c.vars(), false, "")
}

pub fn run(r: &mut Runner) {
    r.rule = "histories: sequences over Define(name in {x,y,z}, value, via add_variable | add_variable_from_value), OpenInner, CloseInner, nesting <= 3, run as a recursive \
              interpreter (a child scope borrows its parent); all well-nested sequences up to length 6 (quick) / 7 (thorough) exhaustively, with and without same-named \
              functions registered at the root, plus random longer ones. After every operation get_variable and a one-name program must return the innermost binding or \
              UndeclaredReference, and after a scope is dropped the parent answers as before. One compiled program executed against every sequence of three contexts (name unbound / bound to five values, same-named function or not). Programs: 22 templates with up to three nested macros instantiated with all 27 \
              assignments of {x,y,z} to their binders under all 8 subsets of context-defined names (exhaustive), plus random typed programs whose binders reuse context names. \
              Oracle: lexical scoping in the reference evaluator, and the context read back unchanged. Non-trivial: a binder shadows a live outer binding used on both sides / an inner \
              scope redefines an outer name; distinct by (history) or (program, context)."
        .into();
    let maxlen = r.tier.n(6, 7) as usize;
    for len in 1..=maxlen {
        let count = SYMS.pow(len as u32) * 2;
        r.sweep_fn(
            &format!("histories-len-{len}"),
            count,
            move |i| {
                let functions = i % 2 == 1;
                match nth_history(i / 2, len) {
                    Some(ops) => History { ops, functions },
                    None => History { ops: vec![], functions },
                }
            },
            |h| if h.ops.is_empty() { Outcome::Skip("not-well-nested") } else { check_history(h) },
        );
    }
    let n = r.tier.n(4_000, 200_000);
    r.random(
        "random-long-histories",
        64,
        n,
        |u: &mut Chooser| {
            let len = 8 + u.below(24);
            let mut depth = 0;
            let mut ops = vec![];
            for p in 0..len {
                let mut s = sym(u.below(SYMS as usize) as u64, p);
                if s == Op::Open && depth >= 3 {
                    s = Op::Close;
                }
                if s == Op::Close && depth == 0 {
                    s = Op::Open;
                }
                match s {
                    Op::Open => depth += 1,
                    Op::Close => depth -= 1,
                    Op::Define(n, _, how) if u.chance(1, 4) => s = Op::Define(n, 4 + u.below(3) as u8, how),
                    Op::Define(n, _, _) if u.chance(1, 6) => s = Op::Fold(n, u.below(2) as u8),
                    _ => {}
                }
                ops.push(s);
            }
            History { ops, functions: u.flip() }
        },
        check_history,
    );
    // templates: 12 × 27 name assignments × 8 context subsets × functions on/off
    let nt = TEMPLATES.len() as u64;
    r.sweep_fn(
        "templates-x-name-assignments",
        nt * 27 * 8 * 2,
        move |i| {
            let functions = i % 2 == 1;
            let defined = ((i / 2) % 8) as u8;
            let a = (i / 16) % 27;
            let template = (i / 16 / 27) as usize;
            Tmpl { template, names: [(a % 3) as u8, ((a / 3) % 3) as u8, (a / 9) as u8], defined, functions }
        },
        check_template,
    );
    // one compiled program x every sequence of three contexts (6 bindings x function registered or not)
    r.sweep_fn(
        "one-program-several-contexts",
        MULTI_PROGRAMS as u64 * 3 * 12 * 12 * 12,
        move |i| {
            let run = |k: u64| ((k % 6) as u8, k % 12 >= 6);
            Multi { program: (i / 5184) as u8, name: (i / 1728 % 3) as u8, runs: vec![run(i / 144 % 12), run(i / 12 % 12), run(i % 12)] }
        },
        check_multi,
    );
    r.random(
        "random-typed-programs-reusing-names",
        700,
        r.tier.n(15_000, 600_000),
        |u| {
            let mut ctx = gen_ctx(u);
            // context variables that share their names with the macro binders
            ctx.push(Var { name: "x".into(), ty: T::Int, val: V::Int(1000) });
            ctx.push(Var { name: "y".into(), ty: T::Str, val: V::Str("outer".into()) });
            if u.flip() {
                ctx.push(Var { name: "z".into(), ty: T::List(Box::new(T::Int)), val: V::List(vec![V::Int(7), V::Int(8)]) });
            }
            let ty = gen_type(u, 1);
            let depth = 2 + u.below(4);
            let mut env = Env::new(&ctx);
            let expr = gen_e(u, &ty, &mut env, depth);
            TypedCase { ctx, ty, expr }
        },
        check_random,
    );
    r.expect_class("binder-shadows-live-outer-binding", 500);
    r.expect_class("inner-redefinition-of-outer-name", 500);
}
