//! C15 — durations parse, print, add and compare exactly.

use crate::chooser::Chooser;
use crate::engine::{fail, pass_n, Outcome, Runner};
use crate::model::dur::{go_format, parse, Parsed};
use crate::model::{lit, V};
use crate::sut::{self, Ran, R};
use serde::{Deserialize, Serialize};

const MAX: i128 = i64::MAX as i128;
const MIN: i128 = i64::MIN as i128;

#[derive(Clone, Debug, Serialize, Deserialize)]
pub enum Case {
    /// string(d) is the Go rendering; duration(string(d)) == d
    Print { ns: i64, via_literal: bool },
    /// duration(text)
    Parse { text: String },
    /// d1 op d2 for + - and the six relations
    Arith { a: i64, b: i64, op: String },
    /// an unparenthesised chain d0 ± d1 ± d2 ... evaluated from the left; `via_wrapper` hands the durations over through
    /// the crate's serde wrapper instead of as ready-made values
    Chain { items: Vec<i64>, minus: Vec<bool>, via_wrapper: bool },
}

pub fn boundary() -> Vec<i64> {
    let mut v: Vec<i64> = vec![0, 1, 999, 1_000, 1_001, 999_999, 1_000_000, 1_500_000, 999_999_999, 1_000_000_000, 1_000_000_001, 59_999_999_999, 60_000_000_000, 61_000_000_000, 3_599_999_999_999, 3_600_000_000_000, 3_661_000_000_001, 86_400_000_000_000, 5_400_000_000_000, 1_100, 2_200_000, 3_300_000_000, 100, 10, 90_000_000_000];
    let neg: Vec<i64> = v.iter().filter(|x| **x != 0).map(|x| -x).collect();
    v.extend(neg);
    v.extend([i64::MAX, i64::MAX - 1, i64::MIN, i64::MIN + 1, i64::MAX / 2, i64::MIN / 2, i64::MAX / 2 + 1, i64::MIN / 2 - 1]);
    v
}

fn dur_class(ns: i128) -> (bool, &'static str) {
    if ns == 0 {
        (false, "zero")
    } else if ns < 0 {
        (true, "negative")
    } else if ns < 1_000_000 {
        (true, "sub-millisecond")
    } else if ns % 1_000_000_000 != 0 {
        (true, "fractional-seconds")
    } else if MAX - ns < 1024 {
        (true, "near-limit")
    } else {
        (false, "whole-seconds")
    }
}

pub fn check(c: &Case) -> Outcome {
    match c {
        Case::Print { ns, via_literal } => {
            let ns128 = *ns as i128;
            let want = go_format(ns128);
            let (expr, vars): (String, Vec<(String, V)>) = if *via_literal { (format!("duration('{ns}ns')"), vec![]) } else { ("d".into(), vec![("d".into(), V::dur_ns(ns128))]) };
            // printing
            for src in [format!("string({expr})"), format!("{expr}.string()")] {
                match sut::run_src(&src, &vars) {
                    Ran::Done(R::Val(V::Str(s))) => {
                        if s != want {
                            return fail(format!("`{src}` for {ns} ns prints {s:?}, the canonical Go rendering is {want:?}"));
                        }
                    }
                    o => return fail(format!("`{src}` for {ns} ns: {}", o.show())),
                }
            }
            // the literal form must denote the same duration as the host-supplied one
            if *via_literal {
                match sut::run_src(&expr, &[]) {
                    Ran::Done(R::Val(v)) if v.dur_total_ns() == Some(ns128) => {}
                    o => return fail(format!("`{expr}` should denote {ns} ns, observed {}", o.show())),
                }
            }
            // round trip
            let src = format!("duration(string({expr})) == {expr}");
            match sut::run_src(&src, &vars) {
                Ran::Done(R::Val(V::Bool(true))) => {}
                o => return fail(format!("`{src}` for {ns} ns ({want}): expected true, observed {}", o.show())),
            }
            // and parsing the canonical rendering (computed by the oracle) gives the exact count
            match sut::run_src(&format!("duration({})", lit::str_lit(&want)), &[]) {
                Ran::Done(R::Val(v)) if v.dur_total_ns() == Some(ns128) => {}
                o => return fail(format!("duration({want:?}) should be {ns} ns, observed {}", o.show())),
            }
            let (nt, cl) = dur_class(ns128);
            pass_n(nt, vec![cl, "print-and-round-trip"])
        }
        Case::Parse { text } => {
            let p = parse(text);
            let src = format!("duration({})", lit::str_lit(text));
            let got = match sut::run_src(&src, &[]) {
                Ran::Done(r) => r,
                o => return fail(format!("`{src}`: {}", o.show())),
            };
            // the same text again - as the same literal, and handed over as a variable - is accepted or rejected the same way
            for (src2, vars2) in [(src.clone(), vec![]), ("duration(s)".to_string(), vec![("s".to_string(), V::Str(text.clone()))])] {
                let again = match sut::run_src(&src2, &vars2) {
                    Ran::Done(r) => r,
                    o => return fail(format!("`{src2}` {vars2:?}: {}", o.show())),
                };
                let agree = match (&got, &again) {
                    (R::Val(a), R::Val(b)) => a.dur_total_ns() == b.dur_total_ns(),
                    (R::Err(..), R::Err(..)) => true,
                    _ => false,
                };
                if !agree {
                    return fail(format!("`{src}` gave {} the first time; evaluating the same text again (`{src2}`) gives {}", got.show(), again.show()));
                }
            }
            match (&p, &got) {
                (_, R::Panic(pn)) => fail(format!("`{src}`: {}", pn.short())),
                (Parsed::Malformed(why), R::Val(v)) => fail(format!("`{src}` is not a sequence of <decimal number><unit> terms ({why}) but is accepted as {:?} ns", v.dur_total_ns())),
                (Parsed::Malformed(_), R::Err(..)) => pass_n(true, vec!["malformed-rejected"]),
                (Parsed::Ok { lo, hi, plus_sign, bare_dot_number, micro_symbol }, R::Val(v)) => {
                    let Some(ns) = v.dur_total_ns() else { return fail(format!("`{src}` yields a non-duration {v:?}")) };
                    if *lo > MAX || *hi < MIN {
                        return fail(format!("`{src}` denotes a duration outside 64-bit nanoseconds but yields {ns} ns (clamped / wrapped)"));
                    }
                    if ns < *lo || ns > *hi {
                        return fail(format!("`{src}` denotes {} ns, observed {ns} ns", if lo == hi { lo.to_string() } else { format!("between {lo} and {hi}") }));
                    }
                    let _ = (plus_sign, bare_dot_number, micro_symbol);
                    pass_n(true, vec![if lo == hi { "well-formed-exact" } else { "well-formed-sub-nanosecond" }])
                }
                (Parsed::Ok { lo, hi, plus_sign, bare_dot_number, micro_symbol }, R::Err(..)) => {
                    let out_of_range = *hi > MAX || *lo < MIN;
                    if out_of_range {
                        pass_n(true, vec!["out-of-range-rejected"])
                    } else if *plus_sign || *bare_dot_number || *micro_symbol {
                        // acceptance of these spellings is not asserted
                        pass_n(false, vec!["unasserted-spelling-rejected"])
                    } else {
                        fail(format!("`{src}` is a documented well-formed duration ({lo} ns) but is rejected: {}", got.show()))
                    }
                }
            }
        }
        Case::Chain { items, minus, via_wrapper } => {
            let vars: Vec<(String, V)> = items.iter().enumerate().map(|(k, ns)| (format!("d{k}"), V::dur_ns(*ns as i128))).collect();
            let mut src = "d0".to_string();
            let mut acc: Option<i128> = Some(items[0] as i128);
            for k in 1..items.len() {
                let m = minus.get(k - 1).copied().unwrap_or(false);
                src.push_str(&format!(" {} d{k}", if m { '-' } else { '+' }));
                acc = acc.and_then(|a| {
                    let r = if m { a - items[k] as i128 } else { a + items[k] as i128 };
                    (MIN..=MAX).contains(&r).then_some(r)
                });
            }
            let ran = if *via_wrapper { sut::run_src_wrapped(&src, &vars) } else { sut::run_src(&src, &vars) };
            match (acc, ran) {
                (Some(want), Ran::Done(R::Val(v))) if v.dur_total_ns() == Some(want) => pass_n(items.len() >= 4, vec!["chain-exact", if *via_wrapper { "durations-through-the-serde-wrapper" } else { "durations-as-values" }]),
                (None, Ran::Done(R::Err(..))) => pass_n(items.len() >= 4, vec!["chain-leaves-the-range"]),
                (want, o) => fail(format!("`{src}` with {items:?} ns{}: from the left the chain gives {}, observed {}", if *via_wrapper { " (handed over as cel_interpreter::Duration)" } else { "" }, want.map(|w| format!("{w} ns")).unwrap_or("an out-of-range partial sum (error)".into()), o.show())),
            }
        }
        Case::Arith { a, b, op } => {
            let vars = vec![("a".to_string(), V::dur_ns(*a as i128)), ("b".to_string(), V::dur_ns(*b as i128))];
            let src = format!("a {op} b");
            let got = match sut::run_src(&src, &vars) {
                Ran::Done(r) => r,
                o => return fail(format!("`{src}`: {}", o.show())),
            };
            let (x, y) = (*a as i128, *b as i128);
            match op.as_str() {
                "+" | "-" => {
                    let r = if op == "+" { x + y } else { x - y };
                    if r < MIN || r > MAX {
                        match got {
                            R::Err(..) => pass_n(true, vec!["arith-out-of-range-error"]),
                            o => fail(format!("`{src}` with a={a} ns b={b} ns leaves the 64-bit nanosecond range ({r}) and must be an error, observed {}", o.show())),
                        }
                    } else {
                        match &got {
                            R::Val(v) if v.dur_total_ns() == Some(r) => pass_n(dur_class(r).0 || dur_class(x).0, vec!["arith-exact"]),
                            o => fail(format!("`{src}` with a={a} ns b={b} ns should be {r} ns, observed {}", o.show())),
                        }
                    }
                }
                rel => {
                    let want = match rel {
                        "==" => x == y,
                        "!=" => x != y,
                        "<" => x < y,
                        "<=" => x <= y,
                        ">" => x > y,
                        _ => x >= y,
                    };
                    match got {
                        R::Val(V::Bool(g)) if g == want => pass_n((x - y).abs() <= 1 || (x < 0) != (y < 0), vec!["comparison"]),
                        o => fail(format!("`{src}` with a={a} ns b={b} ns should be {want}, observed {}", o.show())),
                    }
                }
            }
        }
    }
}

fn gen_ns(u: &mut Chooser) -> i64 {
    match u.below(4) {
        0 => *u.pick(&boundary()),
        1 | 2 => u.log_i64(),
        _ => u.pick(&boundary()).wrapping_add(u.range(-3, 3)),
    }
}

/// well-formed non-canonical strings whose terms are integral nanosecond multiples, and malformed mutations
fn gen_text(u: &mut Chooser) -> String {
    let units = ["ns", "us", "ms", "s", "m", "h"];
    let mut s = String::new();
    if u.chance(1, 3) {
        s.push('-');
    }
    let n = 1 + u.below(4);
    for _ in 0..n {
        let unit = *u.pick(&units);
        let int = match u.below(4) {
            0 => u.below(10) as u64,
            1 => u.below(100_000) as u64,
            2 => u.log_u64() >> u.below(40),
            _ => u.below(3) as u64,
        };
        s.push_str(&int.to_string());
        if u.chance(1, 3) {
            s.push('.');
            for _ in 0..(1 + u.below(if unit == "ns" { 1 } else { 9 })) {
                s.push((b'0' + u.below(10) as u8) as char);
            }
        }
        s.push_str(unit);
    }
    // mutations
    match u.below(14) {
        0 => s.push_str(" foo"),
        1 => s.push(' '),
        2 => s.insert(0, ' '),
        3 => {
            s = s.trim_end_matches(|c: char| c.is_ascii_alphabetic()).to_string();
        }
        4 => s.insert(0, '-'),
        5 => s = s.replace("s", "e3s"),
        6 => s = format!("inf{}", u.pick(&units)),
        7 => s = format!("nan{}", u.pick(&units)),
        8 => s = format!("{s}-1s"),
        9 => s = format!("1{}", u.pick(&["d", "w", "y", "sec", "min", "hr", "S", "H"])),
        10 => s = u.pick(&["", "s", "h", ".", ".s", "-", "+", "1", "1.5", "0x10s", "1_000s", "１s", "1 s", "1s 2s", "1,5s", "--1s", "1s-", "+-1s", "infinity", "Infs", "NaNs", "1e3s", "1E3s", "1e-3s", "0", "-0", "+0", "00", "0.0", "0s", "0.0s", "00s"]).to_string(),
        11 => s = format!("+{}", s.trim_start_matches('-')),
        12 => s = s.replace("us", *u.pick(&["µs", "μs"])),
        _ => {}
    }
    s
}

/// free text, one character per choice: mostly from the alphabet duration strings are made of, otherwise arbitrary bytes
/// (decoded leniently).  Under the coverage-guided target one input byte pair selects one character, so libFuzzer's byte
/// mutations are character mutations.
fn gen_raw_text(u: &mut Chooser) -> String {
    const ALPHA: &[&str] = &["0", "1", "2", "5", "9", ".", "-", "+", "h", "m", "s", "n", "u", "µ", "μ", "ms", "ns", "us", "e", "E", " ", "i", "f", "a", "_", "x", "d", "\t", "00", "99", "inf", "nan", "1e", "0x", ",", "٣", "１"];
    let len = u.below(24);
    let mut bytes: Vec<u8> = vec![];
    for _ in 0..len {
        let x = u.raw();
        let sel = (x >> 24) as usize;
        if sel < 232 {
            bytes.extend_from_slice(ALPHA[sel % ALPHA.len()].as_bytes());
        } else {
            bytes.push((x >> 16) as u8);
            if sel & 1 == 1 {
                bytes.push((x >> 8) as u8);
            }
        }
    }
    String::from_utf8_lossy(&bytes).into_owned()
}

pub fn run(r: &mut Runner) {
    r.rule = "cases: durations from the boundary set (0, +-1 ns ... +-1 h, +-59.999999999 s, i64::MIN / MAX ns and neighbours) and log-uniform random 64-bit nanosecond counts of both signs, as host-supplied Value::Duration and as duration('<n>ns'): \
              string(d) must be the canonical Go rendering (independent formatter), duration(string(d)) == d, duration(<oracle rendering>) exact; generated strings: well-formed multi-term decimal strings with all six units, and malformed ones from a mutation grammar \
              (trailing text, missing unit, unit only, doubled or inner sign, exponent, inf / nan, spaces, unknown unit, empty) judged by an independent exact parser: malformed and out-of-range strings must be rejected, accepted ones must denote the exact sum; \
              all ordered pairs of the boundary set under + - (exact or range error) and the six relations; random pairs. Non-trivial: negative, sub-millisecond, fractional seconds, near a limit, or a malformed class; distinct by input."
        .into();
    r.assumptions = vec!["not asserted: rounding of sub-nanosecond term fractions (any value between the floor and the ceiling is accepted), acceptance of '+' signs, of numbers with a bare dot (.5s, 1.s) and of the micro symbols as input other than through the canonical rendering".into()];
    let b = boundary();
    let mut fixed = vec![];
    for ns in &b {
        fixed.push(Case::Print { ns: *ns, via_literal: false });
        fixed.push(Case::Print { ns: *ns, via_literal: true });
    }
    for t in [
        "1h", "1.5h", "1h30m", "1h30m1s", "1ms", "1.5ms", "1ns", "1us", "90m", "1h30m0s", "0", "-0", "0s", "-1s", "1.1s", "1.123us", "0h0m1s", "2562047h47m16.854775807s", "-2562047h47m16.854775808s", "2562047h47m16.854775808s", "-2562047h47m16.854775809s",
        "9223372036854775807ns", "9223372036854775808ns", "-9223372036854775808ns", "-9223372036854775809ns", "3000000h", "2562048h", "99999999999999999999999h", "1s foo", "1s ", " 1s", "1", "s", "", "--1s", "1s-1s", "1e3s", "infs", "nans", "infinitys", "1.5", "+1s", ".5s", "1.s", ".s", "1µs", "1μs", "1.5µs",
        "514.826609ms", "0.000000001s", "0.0000000001s", "1.9999999999s", "0.3s", "0.1s0.2s", "1h1h", "1m1h", "1ns1h", "00001s", "1.000000000000000000000000000001s", "18446744073709551616ns", "1d", "1S", "1H",
    ] {
        fixed.push(Case::Parse { text: t.to_string() });
    }
    // very long numbers: fractions of 20 … 400 digits, integer parts of 20 … 60 digits
    for t in ["--1h", "---5m", "--0", "-+1s", "+-1s", "++1s", "- 1s", "1h-", "-", "+", "--", "1h--30m", "1h ", "1h\n", "90m\t", "1h\u{a0}", " 1h", "1h  ", "1s\r\n", "\t1s", "1 h", "1h 30m"] {
        fixed.push(Case::Parse { text: t.to_string() });
    }
    for n in [19usize, 20, 38, 39, 40, 64, 127, 128, 129, 200, 400] {
        fixed.push(Case::Parse { text: format!("1.{}s", "3".repeat(n)) });
        fixed.push(Case::Parse { text: format!("0.{}1ms", "0".repeat(n)) });
        fixed.push(Case::Parse { text: format!("-1.5{}h", "0".repeat(n)) });
        fixed.push(Case::Parse { text: format!("{}1ns", "0".repeat(n)) });
        fixed.push(Case::Parse { text: format!("{}ns", "9".repeat(n)) });
    }
    r.sweep("boundary-print-and-fixed-strings", fixed, check);
    {
        let ops = ["+", "-", "==", "!=", "<", "<=", ">", ">="];
        let n = b.len() as u64;
        let bb = b.clone();
        r.sweep_fn("boundary-pairs-arithmetic-and-comparison", n * n * 8, move |i| Case::Arith { a: bb[(i / 8 / n) as usize], b: bb[((i / 8) % n) as usize], op: ops[(i % 8) as usize].to_string() }, check);
    }
    let n = r.tier.n(10_000, 500_000);
    r.random("random-print-round-trip", 8, n, |u: &mut Chooser| Case::Print { ns: gen_ns(u), via_literal: u.flip() }, check);
    r.random("random-strings", 60, n, |u: &mut Chooser| Case::Parse { text: gen_text(u) }, check);
    r.random(
        "chains-of-sums-and-differences",
        20,
        n / 2,
        |u: &mut Chooser| {
            let bb = boundary();
            let len = 2 + u.below(5);
            let items = (0..len).map(|_| if u.flip() { *u.pick(&bb) } else { gen_ns(u) }).collect();
            let minus = (0..len).map(|_| u.chance(1, 3)).collect();
            Case::Chain { items, minus, via_wrapper: u.chance(1, 3) }
        },
        check,
    );
    r.random(
        "random-arithmetic",
        16,
        n,
        |u: &mut Chooser| Case::Arith { a: gen_ns(u), b: gen_ns(u), op: u.pick(&["+", "-", "==", "!=", "<", "<=", ">", ">="]).to_string() },
        check,
    );
    r.random("free-text", 25, n / 2, |u: &mut Chooser| Case::Parse { text: gen_raw_text(u) }, check);
    // round trip through the oracle's own rendering of random durations as *input text*
    r.random("random-canonical-strings", 8, n / 2, |u: &mut Chooser| Case::Parse { text: go_format(gen_ns(u) as i128) }, check);
    for c in ["negative", "sub-millisecond", "fractional-seconds", "malformed-rejected", "out-of-range-rejected", "arith-out-of-range-error", "well-formed-exact"] {
        r.expect_class(c, 100);
    }
}
