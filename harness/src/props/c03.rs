//! C03 — evaluation of the core language agrees with the reference semantics.

use crate::engine::{fail, pass_n, Outcome, Runner};
use crate::gen::typed::{gen_typed_case, TypedCase};
use crate::model::eval::{eval, St, Stop};
use crate::model::expr::{Op, E};
use crate::model::{same, ErrClass, V};
use crate::sut::{self, Ran, R};

pub fn agree(model: &Result<V, Stop>, got: &R) -> bool {
    match (model, got) {
        (Ok(v), R::Val(g)) => same(v, g),
        (Err(Stop::Err(ErrClass::Range)), R::Err(..)) => true,
        (Err(Stop::Err(c)), R::Err(c2, _)) => c == c2,
        _ => false,
    }
}

/// The reference semantics of a program: one outcome, or two where the statement leaves a choice
/// (exists_one may or may not visit elements after its second hit). Returns (result, host log, state) per variant.
pub fn model_variants(e: &E, vars: &[(String, V)], table: &crate::model::eval::Table, map_order_known: bool) -> Vec<(Result<V, Stop>, St)> {
    model_variants_with(e, vars, table, map_order_known, &[])
}

pub fn model_variants_with(e: &E, vars: &[(String, V)], table: &crate::model::eval::Table, map_order_known: bool, const_funcs: &[(String, V)]) -> Vec<(Result<V, Stop>, St)> {
    let mut out = vec![];
    let has_exists_one = e.any(&|x| matches!(x, E::Macro(crate::model::expr::Mac::ExistsOne | crate::model::expr::Mac::ExistsOneCamel, ..)));
    for early in [false, true] {
        if early && !has_exists_one {
            break;
        }
        let mut st = St::new(vars, table.clone());
        st.map_order_known = map_order_known;
        st.exists_one_stops_at_two = early;
        st.const_funcs = const_funcs.to_vec();
        let r = eval(e, &mut st);
        out.push((r, st));
    }
    out
}

pub fn result_class(model: &Result<V, Stop>) -> &'static str {
    match model {
        Ok(v) => match v {
            V::Null => "result:null",
            V::Bool(_) => "result:bool",
            V::Int(_) => "result:int",
            V::UInt(_) => "result:uint",
            V::Float(_) => "result:double",
            V::Str(_) => "result:string",
            V::Bytes(_) => "result:bytes",
            V::List(_) => "result:list",
            V::Map(_) => "result:map",
            _ => "result:other",
        },
        Err(Stop::Err(c)) => c.coarse(),
        Err(Stop::Unsupported(_)) => "unsupported",
    }
}

pub fn shape_classes(e: &E) -> Vec<&'static str> {
    let mut c = vec![];
    if e.any(&|x| matches!(x, E::Macro(..))) {
        c.push("has:macro");
    }
    if e.any(&|x| matches!(x, E::Map(_))) {
        c.push("has:map-literal");
    }
    if e.any(&|x| matches!(x, E::Cond(..))) {
        c.push("has:conditional");
    }
    if e.any(&|x| matches!(x, E::Index(..))) {
        c.push("has:index");
    }
    if e.any(&|x| matches!(x, E::Select(..) | E::Has(..))) {
        c.push("has:select-or-has");
    }
    if e.any(&|x| matches!(x, E::Bin(Op::In, ..))) {
        c.push("has:in");
    }
    if e.any(&|x| matches!(x, E::Call(..))) {
        c.push("has:call");
    }
    if e.any(&|x| matches!(x, E::Bin(Op::And | Op::Or, ..))) {
        c.push("has:logic");
    }
    if e.any(&|x| matches!(x, E::Bin(Op::Add | Op::Sub | Op::Mul | Op::Div | Op::Rem, ..) | E::Neg(_))) {
        c.push("has:arithmetic");
    }
    if e.any(&|x| matches!(x, E::Bin(Op::Lt | Op::Le | Op::Gt | Op::Ge | Op::Eq | Op::Ne, ..))) {
        c.push("has:comparison");
    }
    c
}

pub fn check(c: &TypedCase) -> Outcome {
    let vars = c.vars();
    let variants = model_variants(&c.expr, &vars, &vec![], false);
    if let Err(Stop::Unsupported(why)) = &variants[0].0 {
        return Outcome::Skip(why);
    }
    let src = c.expr.render();
    let (ran, log) = sut::run_logged(&src, &vars, &vec![]);
    let got = match ran {
        Ran::Done(r) => r,
        other => return fail(format!("`{src}`: expected {:?}, observed {}", variants[0].0, other.show())),
    };
    let Some((model, st)) = variants.iter().find(|(m, st)| agree(m, &got) && st.log == log) else {
        let (model, st) = &variants[0];
        if !agree(model, &got) {
            return fail(format!("`{src}` vars={}: reference model gives {:?}, interpreter gives {}", sut::trunc(&format!("{vars:?}"), 600), model, got.show()));
        }
        return fail(format!("`{src}`: host-function call log differs: model {:?}, interpreter {:?}", st.log, log));
    };
    let model = model.clone();
    // metamorphic: guarding the whole term by a conditional whose other branch would fail never changes the result
    let guarded = format!("(true ? {src} : (1 / 0))");
    if let Ran::Done(g2) = sut::run_logged(&guarded, &vars, &vec![]).0 {
        if !agree(&model, &g2) {
            return fail(format!("`{guarded}`: guarded form gives {}, plain form agreed with the model {:?}", g2.show(), model));
        }
    } else {
        return fail(format!("`{guarded}` does not compile although `{src}` does"));
    }
    let ops = c.expr.count(&|x| !matches!(x, E::Lit(_) | E::Var(_)));
    let nt = ops >= 2;
    let mut classes = shape_classes(&c.expr);
    classes.push(result_class(&model));
    if st.skipped_operand {
        classes.push("short-circuit-or-branch-taken");
    }
    pass_n(nt, classes)
}

pub fn run(r: &mut Runner) {
    r.rule = "cases: (generated context, well-typed expression tree of depth <= 6 over the core fragment) from the type-directed generator; leaves are boundary-biased \
              literals or context variables. Oracle: the independent reference evaluator (value identity type-exact, doubles bitwise with NaN as one class, maps as entry sets; \
              errors by coarse class) plus the guarded-conditional metamorphic relation. Non-trivial: at least two operator/call nodes; distinct by (context, source). \
              Cases touching a deliberately-not-asserted corner are skipped and counted under outside_domain_skipped."
        .into();
    r.assumptions = vec![
        "the reference evaluator shares the host FPU and Rust's f64 with the interpreter".into(),
        "error classes are compared coarsely (overflow / zero-divisor / no-such-key / undeclared(name) / other)".into(),
    ];
    let n = r.tier.n(40_000, 2_000_000);
    r.random("typed-programs", 600, n, |u| gen_typed_case(u, 5, false), check);
    for c in ["has:macro", "has:map-literal", "has:conditional", "has:index", "has:in", "has:call", "err:overflow", "err:zero-divisor", "err:no-such-key"] {
        r.expect_class(c, 50);
    }
}
