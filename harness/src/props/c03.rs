//! C03 — evaluation of the core language agrees with the reference semantics.

use crate::engine::{fail, pass_n, Outcome, Runner};
use crate::gen::typed::{gen_typed_case, TypedCase};
use crate::model::eval::{eval, St, Stop};
use crate::model::expr::{Op, E};
use crate::model::{same, ErrClass, V};
use crate::sut::{self, Ran, R};

pub fn agree(model: &Result<V, Stop>, got: &R) -> bool {
    match (model, got) {
        (Ok(v), R::Val(g)) => same(v, g),
        (Err(Stop::Err(c)), R::Err(c2, _)) => c == c2,
        _ => false,
    }
}

pub fn result_class(model: &Result<V, Stop>) -> &'static str {
    match model {
        Ok(v) => match v {
            V::Null => "result:null",
            V::Bool(_) => "result:bool",
            V::Int(_) => "result:int",
            V::UInt(_) => "result:uint",
            V::Float(_) => "result:double",
            V::Str(_) => "result:string",
            V::Bytes(_) => "result:bytes",
            V::List(_) => "result:list",
            V::Map(_) => "result:map",
            _ => "result:other",
        },
        Err(Stop::Err(c)) => c.coarse(),
        Err(Stop::Unsupported(_)) => "unsupported",
    }
}

pub fn shape_classes(e: &E) -> Vec<&'static str> {
    let mut c = vec![];
    if e.any(&|x| matches!(x, E::Macro(..))) {
        c.push("has:macro");
    }
    if e.any(&|x| matches!(x, E::Map(_))) {
        c.push("has:map-literal");
    }
    if e.any(&|x| matches!(x, E::Cond(..))) {
        c.push("has:conditional");
    }
    if e.any(&|x| matches!(x, E::Index(..))) {
        c.push("has:index");
    }
    if e.any(&|x| matches!(x, E::Select(..) | E::Has(..))) {
        c.push("has:select-or-has");
    }
    if e.any(&|x| matches!(x, E::Bin(Op::In, ..))) {
        c.push("has:in");
    }
    if e.any(&|x| matches!(x, E::Call(..))) {
        c.push("has:call");
    }
    if e.any(&|x| matches!(x, E::Bin(Op::And | Op::Or, ..))) {
        c.push("has:logic");
    }
    if e.any(&|x| matches!(x, E::Bin(Op::Add | Op::Sub | Op::Mul | Op::Div | Op::Rem, ..) | E::Neg(_))) {
        c.push("has:arithmetic");
    }
    if e.any(&|x| matches!(x, E::Bin(Op::Lt | Op::Le | Op::Gt | Op::Ge | Op::Eq | Op::Ne, ..))) {
        c.push("has:comparison");
    }
    c
}

pub fn check(c: &TypedCase) -> Outcome {
    let vars = c.vars();
    let mut st = St::new(&vars, vec![]);
    let model = eval(&c.expr, &mut st);
    if let Err(Stop::Unsupported(why)) = &model {
        return Outcome::Skip(why);
    }
    let src = c.expr.render();
    let (ran, log) = sut::run_logged(&src, &vars, &vec![]);
    let got = match ran {
        Ran::Done(r) => r,
        other => return fail(format!("`{src}`: expected {:?}, observed {}", model, other.show())),
    };
    if !agree(&model, &got) {
        return fail(format!("`{src}` vars={}: reference model gives {:?}, interpreter gives {}", sut::trunc(&format!("{vars:?}"), 600), model, got.show()));
    }
    if log != st.log {
        return fail(format!("`{src}`: host-function call log differs: model {:?}, interpreter {:?}", st.log, log));
    }
    // metamorphic: guarding the whole term by a conditional whose other branch would fail never changes the result
    let guarded = format!("(true ? {src} : (1 / 0))");
    if let Ran::Done(g2) = sut::run_logged(&guarded, &vars, &vec![]).0 {
        if !agree(&model, &g2) {
            return fail(format!("`{guarded}`: guarded form gives {}, plain form agreed with the model {:?}", g2.show(), model));
        }
    } else {
        return fail(format!("`{guarded}` does not compile although `{src}` does"));
    }
    let ops = c.expr.count(&|x| !matches!(x, E::Lit(_) | E::Var(_)));
    let nt = ops >= 2;
    let mut classes = shape_classes(&c.expr);
    classes.push(result_class(&model));
    if st.skipped_operand {
        classes.push("short-circuit-or-branch-taken");
    }
    pass_n(nt, classes)
}

pub fn run(r: &mut Runner) {
    r.rule = "cases: (generated context, well-typed expression tree of depth <= 6 over the core fragment) from the type-directed generator; leaves are boundary-biased \
              literals or context variables. Oracle: the independent reference evaluator (value identity type-exact, doubles bitwise with NaN as one class, maps as entry sets; \
              errors by coarse class) plus the guarded-conditional metamorphic relation. Non-trivial: at least two operator/call nodes; distinct by (context, source). \
              Cases touching a deliberately-not-asserted corner are skipped and counted under outside_domain_skipped."
        .into();
    r.assumptions = vec![
        "the reference evaluator shares the host FPU and Rust's f64 with the interpreter".into(),
        "error classes are compared coarsely (overflow / zero-divisor / no-such-key / undeclared(name) / other)".into(),
    ];
    let n = r.tier.n(40_000, 2_000_000);
    r.random("typed-programs", 600, n, |u| gen_typed_case(u, 5, false), check);
    for c in ["has:macro", "has:map-literal", "has:conditional", "has:index", "has:in", "has:call", "err:overflow", "err:zero-divisor", "err:no-such-key"] {
        r.expect_class(c, 50);
    }
}
