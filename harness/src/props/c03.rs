//! C03 — evaluation of the core language agrees with the reference semantics.

use crate::engine::{fail, pass_n, Outcome, Runner};
use crate::gen::typed::{gen_typed_case, TypedCase};
use crate::model::eval::{eval, St, Stop};
use crate::model::expr::{Op, E};
use crate::model::{same, ErrClass, V};
use crate::sut::{self, Ran, R};

pub fn agree(model: &Result<V, Stop>, got: &R) -> bool {
    match (model, got) {
        (Ok(v), R::Val(g)) => same(v, g),
        (Err(Stop::Err(ErrClass::Range)), R::Err(..)) => true,
        (Err(Stop::Err(c)), R::Err(c2, _)) => c == c2,
        _ => false,
    }
}

/// The reference semantics of a program: one outcome, or two where the statement leaves a choice
/// (exists_one may or may not visit elements after its second hit). Returns (result, host log, state) per variant.
pub fn model_variants(e: &E, vars: &[(String, V)], table: &crate::model::eval::Table, map_order_known: bool) -> Vec<(Result<V, Stop>, St)> {
    model_variants_with(e, vars, table, map_order_known, &[])
}

pub fn model_variants_with(e: &E, vars: &[(String, V)], table: &crate::model::eval::Table, map_order_known: bool, const_funcs: &[(String, V)]) -> Vec<(Result<V, Stop>, St)> {
    let mut out = vec![];
    let has_exists_one = e.any(&|x| matches!(x, E::Macro(crate::model::expr::Mac::ExistsOne | crate::model::expr::Mac::ExistsOneCamel, ..)));
    for early in [false, true] {
        if early && !has_exists_one {
            break;
        }
        let mut st = St::new(vars, table.clone());
        st.map_order_known = map_order_known;
        st.exists_one_stops_at_two = early;
        st.const_funcs = const_funcs.to_vec();
        let r = eval(e, &mut st);
        out.push((r, st));
    }
    out
}

pub fn result_class(model: &Result<V, Stop>) -> &'static str {
    match model {
        Ok(v) => match v {
            V::Null => "result:null",
            V::Bool(_) => "result:bool",
            V::Int(_) => "result:int",
            V::UInt(_) => "result:uint",
            V::Float(_) => "result:double",
            V::Str(_) => "result:string",
            V::Bytes(_) => "result:bytes",
            V::List(_) => "result:list",
            V::Map(_) => "result:map",
            _ => "result:other",
        },
        Err(Stop::Err(c)) => c.coarse(),
        Err(Stop::Unsupported(_)) => "unsupported",
    }
}

pub fn shape_classes(e: &E) -> Vec<&'static str> {
    let mut c = vec![];
    if e.any(&|x| matches!(x, E::Macro(..))) {
        c.push("has:macro");
    }
    if e.any(&|x| matches!(x, E::Map(_))) {
        c.push("has:map-literal");
    }
    if e.any(&|x| matches!(x, E::Cond(..))) {
        c.push("has:conditional");
    }
    if e.any(&|x| matches!(x, E::Index(..))) {
        c.push("has:index");
    }
    if e.any(&|x| matches!(x, E::Select(..) | E::Has(..))) {
        c.push("has:select-or-has");
    }
    if e.any(&|x| matches!(x, E::Bin(Op::In, ..))) {
        c.push("has:in");
    }
    if e.any(&|x| matches!(x, E::Call(..))) {
        c.push("has:call");
    }
    if e.any(&|x| matches!(x, E::Bin(Op::And | Op::Or, ..))) {
        c.push("has:logic");
    }
    if e.any(&|x| matches!(x, E::Bin(Op::Add | Op::Sub | Op::Mul | Op::Div | Op::Rem, ..) | E::Neg(_))) {
        c.push("has:arithmetic");
    }
    if e.any(&|x| matches!(x, E::Bin(Op::Lt | Op::Le | Op::Gt | Op::Ge | Op::Eq | Op::Ne, ..))) {
        c.push("has:comparison");
    }
    c
}

pub fn check(c: &TypedCase) -> Outcome {
    let vars = c.vars();
    let variants = model_variants(&c.expr, &vars, &vec![], false);
    if let Err(Stop::Unsupported(why)) = &variants[0].0 {
        return Outcome::Skip(why);
    }
    let src = c.expr.render();
    let (ran, log) = sut::run_logged(&src, &vars, &vec![]);
    let got = match ran {
        Ran::Done(r) => r,
        other => return fail(format!("`{src}`: expected {:?}, observed {}", variants[0].0, other.show())),
    };
    let Some((model, st)) = variants.iter().find(|(m, st)| agree(m, &got) && st.log == log) else {
        let (model, st) = &variants[0];
        if !agree(model, &got) {
            return fail(format!("`{src}` vars={}: reference model gives {:?}, interpreter gives {}", sut::trunc(&format!("{vars:?}"), 600), model, got.show()));
        }
        return fail(format!("`{src}`: host-function call log differs: model {:?}, interpreter {:?}", st.log, log));
    };
    let model = model.clone();
    // metamorphic: guarding the whole term by a conditional whose other branch would fail never changes the result
    let guarded = format!("(true ? {src} : (1 / 0))");
    if let Ran::Done(g2) = sut::run_logged(&guarded, &vars, &vec![]).0 {
        if !agree(&model, &g2) {
            return fail(format!("`{guarded}`: guarded form gives {}, plain form agreed with the model {:?}", g2.show(), model));
        }
    } else {
        return fail(format!("`{guarded}` does not compile although `{src}` does"));
    }
    // the same compiled program against a context that has the variables but no functions (Context::empty()): what the
    // program yields depends on the context it runs against, never on an earlier execution
    if !c.expr.any(&|x| matches!(x, E::Call(n, ..) if crate::model::eval::HOST_FUNCS.contains(&n.as_str()))) {
        let mut bare_models = vec![];
        for early in [false, true] {
            let mut st = St::new(&vars, vec![]);
            st.builtins = false;
            st.host = false;
            st.exists_one_stops_at_two = early;
            bare_models.push(crate::model::eval::eval(&c.expr, &mut st));
        }
        if !matches!(bare_models[0], Err(Stop::Unsupported(_))) {
            match sut::run_then_on_empty(&src, &vars) {
                Ran::Done(g3) => {
                    if !bare_models.iter().any(|m| agree(m, &g3)) {
                        return fail(format!("`{src}` executed against Context::default() and then, the same Program, against a context without any function (vars={}): there the reference model gives {:?}, interpreter gives {}", sut::trunc(&format!("{vars:?}"), 400), bare_models[0], g3.show()));
                    }
                }
                other => return fail(format!("`{src}`: second compile: {}", other.show())),
            }
        }
    }
    let ops = c.expr.count(&|x| !matches!(x, E::Lit(_) | E::Var(_)));
    let nt = ops >= 2;
    let mut classes = shape_classes(&c.expr);
    classes.push(result_class(&model));
    if st.skipped_operand {
        classes.push("short-circuit-or-branch-taken");
    }
    pass_n(nt, classes)
}

/// a program text together with the tree it has to mean (for spellings the renderer never produces: hexadecimal and
/// signed literals inside arithmetic)
#[derive(Clone, Debug, serde::Serialize, serde::Deserialize)]
pub struct Spelled {
    pub src: String,
    pub expr: E,
}

pub fn check_spelled(c: &Spelled) -> Outcome {
    let variants = model_variants(&c.expr, &[], &vec![], false);
    if let Err(Stop::Unsupported(why)) = &variants[0].0 {
        return Outcome::Skip(why);
    }
    match sut::run_src(&c.src, &[]) {
        Ran::Done(got) if variants.iter().any(|(m, _)| agree(m, &got)) => pass_n(true, vec!["spelled-literal-arithmetic", result_class(&variants[0].0)]),
        other => fail(format!("`{}` means `{}`, for which the reference model gives {:?}; observed {}", c.src, c.expr.render(), variants[0].0, other.show())),
    }
}

fn spelled_cases() -> Vec<Spelled> {
    let mut out = vec![];
    let int_sp = |i: i64, k: usize| -> String {
        let (sign, mag) = (if i < 0 { "-" } else { "" }, i.unsigned_abs());
        match k {
            0 => format!("{i}"),
            1 => format!("{sign}0x{mag:x}"),
            _ => format!("{sign}0x{mag:X}"),
        }
    };
    let ints = [i64::MIN, i64::MIN + 1, -256, -1, 0, 1, 255, i64::MAX - 1, i64::MAX];
    for a in ints {
        for k in 0..3 {
            let sa = int_sp(a, k);
            let la = E::Lit(V::Int(a));
            for (op, sym) in [(Op::Sub, "-"), (Op::Add, "+"), (Op::Mul, "*"), (Op::Div, "/"), (Op::Rem, "%")] {
                for b in [1i64, -1, 2] {
                    out.push(Spelled { src: format!("{sa} {sym} {}", int_sp(b, k)), expr: E::bin(op, la.clone(), E::Lit(V::Int(b))) });
                    out.push(Spelled { src: format!("{} {sym} {sa}", int_sp(b, (k + 1) % 3)), expr: E::bin(op, E::Lit(V::Int(b)), la.clone()) });
                }
            }
            out.push(Spelled { src: format!("{sa} == {}", int_sp(a, (k + 1) % 3)), expr: E::bin(Op::Eq, la.clone(), la.clone()) });
            out.push(Spelled { src: format!("[{sa}][0] < {}", int_sp(0, k)), expr: E::bin(Op::Lt, E::Index(Box::new(E::List(vec![la.clone()])), Box::new(E::Lit(V::Int(0)))), E::Lit(V::Int(0))) });
        }
    }
    let uint_sp = |u: u64, k: usize| -> String {
        match k {
            0 => format!("{u}u"),
            1 => format!("0x{u:x}u"),
            _ => format!("0x{u:X}U"),
        }
    };
    for a in [0u64, 1, 255, 1 << 63, u64::MAX - 1, u64::MAX] {
        for k in 0..3 {
            let (sa, la) = (uint_sp(a, k), E::Lit(V::UInt(a)));
            for (op, sym) in [(Op::Sub, "-"), (Op::Add, "+"), (Op::Mul, "*"), (Op::Div, "/"), (Op::Rem, "%")] {
                for b in [1u64, 2] {
                    out.push(Spelled { src: format!("{sa} {sym} {}", uint_sp(b, k)), expr: E::bin(op, la.clone(), E::Lit(V::UInt(b))) });
                    out.push(Spelled { src: format!("{} {sym} {sa}", uint_sp(b, (k + 1) % 3)), expr: E::bin(op, E::Lit(V::UInt(b)), la.clone()) });
                }
            }
            out.push(Spelled { src: format!("{sa} == {}", uint_sp(a, (k + 1) % 3)), expr: E::bin(Op::Eq, la.clone(), la.clone()) });
        }
    }
    out
}

pub fn run(r: &mut Runner) {
    r.rule = "cases: (generated context, well-typed expression tree of depth <= 6 over the core fragment) from the type-directed generator; leaves are boundary-biased \
              literals or context variables. Oracle: the independent reference evaluator (value identity type-exact, doubles bitwise with NaN as one class, maps as entry sets; \
              errors by coarse class) plus the guarded-conditional metamorphic relation. Non-trivial: at least two operator/call nodes; distinct by (context, source). \
              Cases touching a deliberately-not-asserted corner are skipped and counted under outside_domain_skipped."
        .into();
    r.assumptions = vec![
        "the reference evaluator shares the host FPU and Rust's f64 with the interpreter".into(),
        "error classes are compared coarsely (overflow / zero-divisor / no-such-key / undeclared(name) / other)".into(),
    ];
    r.sweep("hexadecimal-and-signed-literals-in-arithmetic", spelled_cases(), check_spelled);
    let n = r.tier.n(40_000, 2_000_000);
    r.random("typed-programs", 600, n, |u| gen_typed_case(u, 5, false), check);
    for c in ["has:macro", "has:map-literal", "has:conditional", "has:index", "has:in", "has:call", "err:overflow", "err:zero-divisor", "err:no-such-key"] {
        r.expect_class(c, 50);
    }
}
