//! A deterministic "choice sequence" decoder.  Every generator in the harness is a plain function
//! `fn(&mut Chooser) -> Case`; the choices come from proptest (a `Vec<u32>` strategy, which proptest
//! shrinks toward shorter vectors and smaller numbers) or from a libFuzzer byte buffer.  All index
//! mappings are monotone (`x * n >> 32`), so a smaller choice is always a "simpler" alternative and
//! generators list their simplest alternative first.  When the sequence is exhausted every choice is 0.

pub struct Chooser<'a> {
    data: &'a [u32],
    pos: usize,
}

impl<'a> Chooser<'a> {
    pub fn new(data: &'a [u32]) -> Self {
        Chooser { data, pos: 0 }
    }
    pub fn exhausted(&self) -> bool {
        self.pos >= self.data.len()
    }
    pub fn used(&self) -> usize {
        self.pos
    }
    #[inline]
    pub fn raw(&mut self) -> u32 {
        let v = self.data.get(self.pos).copied().unwrap_or(0);
        self.pos += 1;
        v
    }
    /// uniform in 0..n (n >= 1), monotone in the underlying choice
    #[inline]
    pub fn below(&mut self, n: usize) -> usize {
        if n <= 1 {
            // still consume a choice so that the shape of the sequence is stable
            self.raw();
            return 0;
        }
        if n as u64 > u32::MAX as u64 {
            let x = self.bits64();
            return ((x as u128 * n as u128) >> 64) as usize;
        }
        ((self.raw() as u64 * n as u64) >> 32) as usize
    }
    /// inclusive range
    pub fn range(&mut self, lo: i64, hi: i64) -> i64 {
        debug_assert!(lo <= hi);
        (lo as i128 + self.below((hi as i128 - lo as i128 + 1) as usize) as i128) as i64
    }
    /// true with probability num/den; false is the "simple" outcome
    pub fn chance(&mut self, num: u32, den: u32) -> bool {
        let x = self.below(den as usize) as u32;
        x >= den - num
    }
    pub fn flip(&mut self) -> bool {
        self.chance(1, 2)
    }
    pub fn pick<'b, T>(&mut self, xs: &'b [T]) -> &'b T {
        &xs[self.below(xs.len())]
    }
    /// weighted choice: returns the index of the chosen weight
    pub fn weighted(&mut self, ws: &[u32]) -> usize {
        let total: u64 = ws.iter().map(|w| *w as u64).sum();
        if total == 0 {
            self.raw();
            return 0;
        }
        let mut x = (self.raw() as u64 * total) >> 32;
        for (i, w) in ws.iter().enumerate() {
            if x < *w as u64 {
                return i;
            }
            x -= *w as u64;
        }
        ws.len() - 1
    }
    pub fn bits64(&mut self) -> u64 {
        ((self.raw() as u64) << 32) | self.raw() as u64
    }
    /// log-uniform magnitude: choose a bit width 0..=64 then random bits of that width
    pub fn log_u64(&mut self) -> u64 {
        let w = self.below(65);
        if w == 0 {
            self.raw();
            self.raw();
            return 0;
        }
        let b = self.bits64();
        let v = if w == 64 { b } else { b & ((1u64 << w) - 1) };
        // make sure the top bit of the width is set so the magnitude really is ~2^w
        v | (1u64 << (w - 1))
    }
    pub fn log_i64(&mut self) -> i64 {
        let neg = self.flip();
        let w = self.below(64);
        let b = self.bits64();
        let m = if w == 0 { 0 } else { (b & ((1u64 << w) - 1)) | (1u64 << (w - 1)) } as i64;
        if neg {
            -m
        } else {
            m
        }
    }
}

/// Expand bytes (from a fuzzer) into a choice sequence: each 2 bytes become one choice spread over
/// the 32-bit range, so that short fuzzer inputs still drive many decisions.
pub fn bytes_to_choices(data: &[u8]) -> Vec<u32> {
    data.chunks(2)
        .map(|c| {
            let v = (c[0] as u32) << 8 | *c.get(1).unwrap_or(&0) as u32;
            v << 16 | v
        })
        .collect()
}
