//! verif — property-based verification harness for clarkmcc/cel-rust (see /verif/DESIGN.md)
//!
//!   verif run <ID> [--tier quick|thorough] [--seed N]     supervisor: runs the worker in a child
//!   verif worker <ID> --tier T --seed N                   the actual exploration
//!   verif replay <ID> <file>                              re-execute one saved case (no proptest)
//!   verif selftest                                        golden vectors against the oracles themselves

use verif::engine::{self, Mode, Runner, Tier};
use verif::{props, selftest};
use std::os::unix::process::ExitStatusExt;
use std::path::PathBuf;
use std::process::Command;

fn root() -> PathBuf {
    PathBuf::from(std::env::var("VERIF_ROOT").unwrap_or_else(|_| "/verif".to_string()))
}

fn parse_tier(s: &str) -> Tier {
    match s {
        "thorough" => Tier::Thorough,
        _ => Tier::Quick,
    }
}

fn static_id(id: &str) -> &'static str {
    props::ALL.iter().copied().find(|p| *p == id).unwrap_or_else(|| {
        eprintln!("unknown property id {id}");
        std::process::exit(2)
    })
}

fn main() {
    let args: Vec<String> = std::env::args().collect();
    if args.len() < 2 {
        eprintln!("usage: verif run|worker|replay|selftest ...");
        std::process::exit(2);
    }
    let mut tier = std::env::var("VERIF_TIER").map(|s| parse_tier(&s)).unwrap_or(Tier::Quick);
    let mut seed: u64 = std::env::var("VERIF_SEED").ok().and_then(|s| s.trim().parse::<i128>().ok()).map(|v| v as u64).unwrap_or(20260923);
    let mut pos: Vec<String> = vec![];
    let mut shard: (usize, usize) = (0, 1);
    let mut i = 2;
    while i < args.len() {
        match args[i].as_str() {
            "--tier" => {
                tier = parse_tier(args.get(i + 1).map(|s| s.as_str()).unwrap_or("quick"));
                i += 1;
            }
            "--seed" => {
                seed = args.get(i + 1).and_then(|s| s.parse::<i128>().ok()).map(|v| v as u64).unwrap_or(seed);
                i += 1;
            }
            "--shard" => {
                if let Some((a, b)) = args.get(i + 1).and_then(|s| s.split_once('/')) {
                    shard = (a.parse().unwrap_or(0), b.parse().unwrap_or(1));
                }
                i += 1;
            }
            other => pos.push(other.to_string()),
        }
        i += 1;
    }
    match args[1].as_str() {
        "dbg" => {
            println!("MIN_UTC {} MAX_UTC {}", chrono::DateTime::<chrono::Utc>::MIN_UTC.timestamp(), chrono::DateTime::<chrono::Utc>::MAX_UTC.timestamp());
            println!("bv {}", props::c02::boundary_values().len());
            for (secs, nanos) in [(-9223372037i64, 145224190u32), (-9223372037, 145224192), (9223372036, 854775807), (9223372036, 854775808), (9223372037, 0), (-9223372037, 0), (i64::MAX / 1000, 0)] {
                if let Some(d) = chrono::Duration::new(secs, nanos) {
                    let r = std::panic::catch_unwind(|| cel_interpreter::to_value(cel_interpreter::Duration(d)).map(|v| format!("{v:?}")).map_err(|e| e.to_string()));
                    println!("Duration wrapper ({secs}, {nanos}) = {d:?} => {r:?}");
                }
            }
            {
                use cel_interpreter::{Context, Program, Value};
                for (utc, off) in [(chrono::DateTime::<chrono::Utc>::MAX_UTC, 3600), (chrono::DateTime::<chrono::Utc>::MIN_UTC, -3600), (chrono::DateTime::<chrono::Utc>::MAX_UTC, -3600)] {
                    let t = utc.with_timezone(&chrono::FixedOffset::east_opt(off).unwrap());
                    for f in ["getFullYear", "getMonth", "getDayOfYear", "getDate", "getDayOfWeek", "getHours", "getSeconds", "getMilliseconds", "string"] {
                        let r = std::panic::catch_unwind(|| {
                            let mut c = Context::default();
                            c.add_variable_from_value("t", Value::Timestamp(t));
                            Program::compile(&format!("{f}(t)")).unwrap().execute(&c).map(|v| format!("{v:?}")).map_err(|e| e.to_string())
                        });
                        println!("local-out-of-range {off} {f} => {:?}", r.map_err(|_| "PANIC"));
                    }
                    let r = std::panic::catch_unwind(|| Value::Timestamp(t).json().map(|j| j.to_string()).map_err(|e| e.to_string()));
                    println!("local-out-of-range {off} json => {:?}", r.map_err(|_| "PANIC"));
                }
            }
            for src in pos.iter() {
                let r = std::panic::catch_unwind(|| cel_interpreter::Program::compile(src).map(|_| ()).map_err(|e| e.to_string()));
                println!("{src:?} => {r:?}");
            }
        }
        "fuzz-artifact" => {
            // turn a raw libFuzzer artifact into the replay description of the case the target decoded from it
            let target = pos.first().cloned().unwrap_or_default();
            let data = std::fs::read(pos.get(1).cloned().unwrap_or_default()).unwrap_or_default();
            let j = match target.as_str() {
                "c01_compile" => {
                    let mut s = String::from_utf8_lossy(&data[..data.len().min(4096)]).into_owned();
                    while s.len() > 4096 {
                        s.pop();
                    }
                    let src = props::c01::cap_nesting(&s);
                    serde_json::json!({"family": "random-characters", "case": props::c01::Case::Text { family: 0, src }})
                }
                _ => {
                    let choices = verif::chooser::bytes_to_choices(&data);
                    let mut u = verif::chooser::Chooser::new(&choices);
                    let pool = verif::gen::untyped::Pool::c02();
                    let depth = 1 + u.below(7);
                    let expr = verif::gen::untyped::gen_untyped(&mut u, depth, &pool);
                    let ctx = props::c02::gen_ctx(&mut u);
                    serde_json::json!({"family": "untyped-programs", "case": props::c02::Prog { expr, ctx }})
                }
            };
            println!("{j}");
        }
        "fuzz-case" => {
            // verif fuzz-case <ID> <family> <file>: the replay description of the case the generic fuzz target decodes from <file>
            let id = static_id(pos.first().map(|s| s.as_str()).unwrap_or(""));
            let family = pos.get(1).cloned().unwrap_or_default();
            let data = std::fs::read(pos.get(2).cloned().unwrap_or_default()).unwrap_or_default();
            let b = verif::fuzzbridge::start(id, &family);
            println!("{}", b.call(&data, true).unwrap_or_default());
        }
        "selftest" => {
            engine::install_panic_hook();
            let errs = selftest::run();
            if errs.is_empty() {
                println!("SELFTEST ok");
            } else {
                for e in &errs {
                    println!("SELFTEST-FAIL {e}");
                }
                std::process::exit(2);
            }
        }
        "run" => {
            let id = static_id(pos.first().map(|s| s.as_str()).unwrap_or(""));
            std::process::exit(supervise(id, tier, seed, None));
        }
        "replay" => {
            let id = static_id(pos.first().map(|s| s.as_str()).unwrap_or(""));
            let file = pos.get(1).cloned().unwrap_or_else(|| {
                eprintln!("usage: verif replay <ID> <file>");
                std::process::exit(2)
            });
            std::process::exit(supervise(id, tier, seed, Some(file)));
        }
        "worker" => {
            let id = static_id(pos.first().map(|s| s.as_str()).unwrap_or(""));
            std::process::exit(worker(id, tier, seed, pos.get(1).cloned(), shard.0, shard.1));
        }
        _ => {
            eprintln!("unknown command");
            std::process::exit(2);
        }
    }
}

fn worker(id: &'static str, tier: Tier, seed: u64, replay: Option<String>, shard: usize, nshards: usize) -> i32 {
    engine::install_panic_hook();
    let mode = match &replay {
        None => Mode::Run,
        Some(file) => {
            let text = std::fs::read_to_string(file).unwrap_or_else(|e| {
                println!("HARNESS-ERROR cannot read replay file {file}: {e}");
                std::process::exit(2)
            });
            let j: serde_json::Value = engine::from_json_unbounded(text.as_bytes()).unwrap_or_else(|e| {
                println!("HARNESS-ERROR replay file {file} is not JSON: {e}");
                std::process::exit(2)
            });
            // raw journal entries are `[family, case]`, replay files are objects
            let (family, case) = if let Some(a) = j.as_array() {
                (a[0].as_str().unwrap_or("").to_string(), a[1].clone())
            } else {
                (j["family"].as_str().unwrap_or("").to_string(), j["case"].clone())
            };
            std::env::set_var("VERIF_REPLAY_PATH", file);
            Mode::Replay { family, case }
        }
    };
    let mut r = Runner::new(id, tier, seed, root(), mode, shard, nshards);
    // the whole exploration runs on a thread with the documented 8 MiB stack
    std::thread::scope(|s| {
        std::thread::Builder::new()
            .stack_size(engine::STACK)
            .spawn_scoped(s, || {
                props::run(id, &mut r);
                r.finish()
            })
            .expect("spawn")
            .join()
            .unwrap_or(2)
    })
}

fn nshards() -> usize {
    std::env::var("VERIF_SHARDS").ok().and_then(|s| s.parse().ok()).unwrap_or(engine::SHARDS)
}

/// Supervisor: run the shards in child processes so that aborts (stack overflow, double panic,
/// allocation failure) become observations instead of killing the check, and so that the ANTLR
/// runtime's process-wide locks do not serialise the shards.
fn supervise(id: &'static str, tier: Tier, seed: u64, replay: Option<String>) -> i32 {
    let exe = std::env::current_exe().expect("current_exe");
    let start = std::time::Instant::now();
    let spawn = |extra: &[String]| {
        let mut cmd = Command::new(&exe);
        cmd.arg("worker").arg(id).arg("--tier").arg(tier.name()).arg("--seed").arg(seed.to_string());
        for e in extra {
            cmd.arg(e);
        }
        cmd.spawn().expect("spawn worker")
    };
    if let Some(f) = &replay {
        let st = spawn(&[f.clone()]).wait().expect("wait");
        return match st.code() {
            Some(3) => 2,
            Some(c) => c,
            None => abort_verdict(id, f, st.signal().unwrap_or(0), tier, seed, start),
        };
    }
    engine::install_panic_hook();
    let errs = selftest::run();
    if !errs.is_empty() {
        for e in &errs {
            println!("SELFTEST-FAIL {e}");
        }
        return 2;
    }
    let _ = std::panic::take_hook();
    let n = nshards();
    let wdir = engine::work_dir(&root(), id);
    let _ = std::fs::remove_dir_all(&wdir);
    let _ = std::fs::create_dir_all(&wdir);
    let mut children: Vec<_> = (0..n).map(|k| spawn(&["--shard".to_string(), format!("{k}/{n}")])).collect();
    let mut died: Vec<(usize, i32)> = vec![];
    let mut inconclusive = false;
    for (k, c) in children.iter_mut().enumerate() {
        let st = c.wait().expect("wait");
        match st.code() {
            Some(0) => {}
            Some(_) => inconclusive = true,
            None => died.push((k, st.signal().unwrap_or(0))),
        }
    }
    if !died.is_empty() {
        let adir = root().join("replays").join(id);
        let _ = std::fs::create_dir_all(&adir);
        for (k, sig) in &died {
            println!("WORKER-DIED property={id} shard={k} signal={sig}; re-running its journalled case in isolation");
            if let Ok(b) = std::fs::read(wdir.join(format!("j.{k}"))) {
                if b.len() >= 4 {
                    let len = u32::from_le_bytes([b[0], b[1], b[2], b[3]]) as usize;
                    if len > 0 && b.len() >= 4 + len {
                        let path = adir.join(format!("abort-shard{k}.json"));
                        let _ = std::fs::write(&path, &b[4..4 + len]);
                        let st = spawn(&[path.to_string_lossy().to_string()]).wait().expect("wait");
                        if st.code().is_none() {
                            return abort_verdict(id, &path.to_string_lossy(), st.signal().unwrap_or(0), tier, seed, start);
                        }
                        let _ = std::fs::remove_file(&path);
                    }
                }
            }
        }
        println!("INCONCLUSIVE property={id} a worker died on a signal but its journalled case does not reproduce the abort in isolation");
        return 2;
    }
    if inconclusive {
        println!("INCONCLUSIVE property={id} a shard ended abnormally (see above)");
        return 2;
    }
    engine::merge_and_report(id, tier, seed, &root(), n, start.elapsed().as_secs_f64())
}

fn abort_verdict(id: &str, path: &str, sig: i32, tier: Tier, seed: u64, start: std::time::Instant) -> i32 {
    // C01 and C02 promise "never aborts"; for the other properties an abort is outside their claim
    // and is reported as inconclusive (C02 owns it).
    // C01 and C02 promise "never aborts" in so many words; every other property promises a *result* for the
    // operations of the journalled case, which a process abort denies just as well.
    let owns = true;
    let ev = serde_json::json!({
        "property_id": id, "tier": tier.name(), "seed": seed, "level": "exploration",
        "coverage": {"evaluations": 1, "distinct_nontrivial": 0, "rule": "run ended by a process abort; see replay", "samples": [path],
                     "explanation": format!("worker process died on signal {sig}; the journalled case reproduces the abort in isolation")},
        "wall_s": start.elapsed().as_secs_f64(), "violations": if owns {1} else {0}
    });
    let _ = std::fs::create_dir_all(root().join("evidence"));
    let _ = std::fs::write(root().join("evidence").join(format!("{id}.json")), serde_json::to_string_pretty(&ev).unwrap());
    if owns {
        println!("VIOLATION property={id} replay={path}");
        println!("  process abort (signal {sig}) reproduced in isolation");
        1
    } else {
        println!("INCONCLUSIVE property={id} process abort (signal {sig}) reproduced by {path}; aborts are judged by C02");
        2
    }
}
