//! Runner: sharded sweeps and proptest-driven random families, panic capture, known-finding
//! matching, replay files, evidence.  See DESIGN.md §2.

use crate::chooser::Chooser;
use proptest::strategy::{Strategy, ValueTree};
use proptest::test_runner::{Config, RngAlgorithm, TestCaseError, TestError, TestRng, TestRunner};
use serde::de::DeserializeOwned;
use serde::Serialize;
use serde_json::{json, Value as J};
use std::cell::RefCell;
use std::collections::hash_map::DefaultHasher;
use std::collections::{BTreeMap, HashSet};
use std::hash::{Hash, Hasher};
use std::os::unix::fs::FileExt;
use std::panic::{catch_unwind, AssertUnwindSafe};
use std::path::PathBuf;
use std::sync::atomic::{AtomicBool, AtomicU64, Ordering};
use std::sync::Mutex;
use std::time::Instant;

pub const SHARDS: usize = 16;
pub const STACK: usize = 8 << 20;

#[derive(Clone, Copy, PartialEq, Eq, Debug)]
pub enum Tier {
    Quick,
    Thorough,
}

impl Tier {
    pub fn name(self) -> &'static str {
        match self {
            Tier::Quick => "quick",
            Tier::Thorough => "thorough",
        }
    }
    /// pick a size by tier
    pub fn n(self, quick: u64, thorough: u64) -> u64 {
        match self {
            Tier::Quick => quick,
            Tier::Thorough => thorough,
        }
    }
}

// ------------------------------------------------------------------------------------------------
// panic capture

#[derive(Clone, Debug)]
pub struct PanicInfo {
    pub msg: String,
    pub file: String,
    pub line: u32,
}

impl PanicInfo {
    /// true when the panic originated in the harness' own sources (a harness defect, exit 2)
    pub fn in_harness(&self) -> bool {
        self.file.starts_with("src/") || self.file.contains("/verif/harness/src/") || self.file.contains("/verif/fuzz/")
    }
    pub fn short(&self) -> String {
        format!("panic at {}:{}: {}", self.file, self.line, self.msg)
    }
}

thread_local! {
    static LAST_PANIC: RefCell<Option<PanicInfo>> = const { RefCell::new(None) };
}

pub fn install_panic_hook() {
    std::panic::set_hook(Box::new(|info| {
        let msg = if let Some(s) = info.payload().downcast_ref::<&str>() {
            s.to_string()
        } else if let Some(s) = info.payload().downcast_ref::<String>() {
            s.clone()
        } else {
            "<non-string panic payload>".to_string()
        };
        let (file, line) = info.location().map(|l| (l.file().to_string(), l.line())).unwrap_or_default();
        let pi = PanicInfo { msg, file, line };
        if pi.in_harness() || std::env::var_os("VERIF_DEBUG_PANICS").is_some() {
            eprintln!("[harness] {}", pi.short());
        }
        LAST_PANIC.with(|p| *p.borrow_mut() = Some(pi));
    }));
}

/// Run code under test; a panic becomes data.
pub fn guard<T>(f: impl FnOnce() -> T) -> Result<T, PanicInfo> {
    match catch_unwind(AssertUnwindSafe(f)) {
        Ok(v) => Ok(v),
        Err(_) => Err(LAST_PANIC.with(|p| p.borrow_mut().take()).unwrap_or(PanicInfo {
            msg: "<unknown panic>".into(),
            file: "<unknown>".into(),
            line: 0,
        })),
    }
}

// ------------------------------------------------------------------------------------------------
// outcomes

#[derive(Clone, Debug)]
pub enum Outcome {
    /// oracle satisfied.  `nontrivial` per the property's stated rule; `classes` feed the histogram
    Pass { nontrivial: bool, classes: Vec<&'static str> },
    /// the code disagrees with the specification model but agrees exactly with the recorded
    /// behaviour of known finding `id` on an input inside that finding's class
    Known { id: &'static str, what: String },
    /// oracle violated
    Fail(String),
    /// generated input lies outside the property's domain (counted, never judged)
    Skip(&'static str),
}

pub fn pass(nontrivial: bool, class: &'static str) -> Outcome {
    Outcome::Pass { nontrivial, classes: vec![class] }
}
pub fn pass_n(nontrivial: bool, classes: Vec<&'static str>) -> Outcome {
    Outcome::Pass { nontrivial, classes }
}
pub fn fail(msg: impl Into<String>) -> Outcome {
    Outcome::Fail(msg.into())
}

// ------------------------------------------------------------------------------------------------
// known findings

#[derive(Clone, Debug, serde::Deserialize)]
pub struct Finding {
    pub property: String,
    pub id: String,
    pub status: String,
    #[serde(default)]
    pub what_fails: String,
    #[serde(default)]
    pub example_input: String,
    #[serde(default)]
    pub also_affects: Vec<String>,
}

#[derive(Clone, Debug, Default)]
pub struct KnownFindings {
    pub all: Vec<Finding>,
}

impl KnownFindings {
    pub fn load(root: &PathBuf) -> Self {
        let p = root.join("known_findings.json");
        let Ok(text) = std::fs::read_to_string(&p) else { return Self::default() };
        #[derive(serde::Deserialize)]
        struct File {
            findings: Vec<Finding>,
        }
        match serde_json::from_str::<File>(&text) {
            Ok(f) => KnownFindings { all: f.findings },
            Err(e) => {
                eprintln!("HARNESS-ERROR: known_findings.json unreadable: {e}");
                std::process::exit(2);
            }
        }
    }
    pub fn is_known(&self, prop: &str, id: &str) -> bool {
        self.all
            .iter()
            .any(|f| f.id == id && f.status == "known" && (f.property == prop || f.also_affects.iter().any(|p| p == prop)))
    }
    pub fn listed_for(&self, prop: &str) -> Vec<&Finding> {
        self.all
            .iter()
            .filter(|f| f.status == "known" && (f.property == prop || f.also_affects.iter().any(|p| p == prop)))
            .collect()
    }
}

// ------------------------------------------------------------------------------------------------
// accumulators

#[derive(Default)]
struct Acc {
    evals: u64,
    skipped: u64,
    nt: HashSet<u64>,
    nt_capped: bool,
    classes: BTreeMap<&'static str, u64>,
    samples: BTreeMap<&'static str, Vec<J>>,
    known: BTreeMap<&'static str, (u64, String)>,
    harness_panic: Option<String>,
}

const NT_CAP: usize = 6_000_000;

#[derive(Clone, Serialize, serde::Deserialize)]
pub struct FamilyPart {
    pub name: String,
    pub kind: String,
    pub evaluations: u64,
    pub complete: bool,
    /// first failure in this shard: (ordinal, case, message)
    pub fail: Option<(u64, J, String)>,
}

/// what one shard process hands back to the supervisor
#[derive(Default, Serialize, serde::Deserialize)]
pub struct Part {
    pub shard: usize,
    pub evals: u64,
    pub skipped: u64,
    pub nt_count: u64,
    pub nt_capped: bool,
    pub classes: BTreeMap<String, u64>,
    pub samples: BTreeMap<String, Vec<J>>,
    pub known: BTreeMap<String, (u64, String)>,
    pub families: Vec<FamilyPart>,
    pub harness_panic: Option<String>,
    pub rule: String,
    pub assumptions: Vec<String>,
    pub extra: BTreeMap<String, J>,
    pub expectations: Vec<(String, u64)>,
    pub health_warnings: Vec<String>,
    pub regression_violations: Vec<(String, String, String)>, // family, path, message
}

#[derive(Clone)]
pub enum Mode {
    Run,
    Replay { family: String, case: J },
    /// coverage-guided mode: only the random family of this name is active; its generator and check are driven by
    /// byte buffers that a libFuzzer target sends over the bridge below (DESIGN 2.9)
    Fuzz { family: String },
}

/// One request from the fuzz target: the raw bytes; `emit_only` = only decode the case and send its replay description back.
pub struct FuzzReq {
    pub data: Vec<u8>,
    pub emit_only: bool,
}
/// reply: None = the case passed (or matched a listed known finding); Some(json) = replay description (+ message) of a failing case
pub type FuzzReply = Option<String>;
pub static FUZZ_BRIDGE: Mutex<Option<(std::sync::mpsc::Receiver<FuzzReq>, std::sync::mpsc::Sender<FuzzReply>)>> = Mutex::new(None);
pub static FUZZ_FAMILY_SEEN: AtomicBool = AtomicBool::new(false);

pub struct Runner {
    pub prop: &'static str,
    pub tier: Tier,
    pub seed: u64,
    pub root: PathBuf,
    pub mode: Mode,
    pub shard: usize,
    pub nshards: usize,
    pub known: KnownFindings,
    pub rule: String,
    pub assumptions: Vec<String>,
    pub extra: BTreeMap<String, J>,
    total: Acc,
    families: Vec<FamilyPart>,
    expectations: Vec<(String, u64)>,
    pub health_warnings: Vec<String>,
    regression_violations: Vec<(String, String, String)>,
    replay_hit: bool,
    replay_failed: bool,
    slot: Slot,
    /// number of re-executions spent on shrinking a failing case (per phase); lower it for expensive families
    pub shrink_budget: u32,
}

// watchdog state: the start time (ms since process start) of the running case
static CASE_START: AtomicU64 = AtomicU64::new(0);
static WATCHDOG_ON: AtomicBool = AtomicBool::new(false);
static PROCESS_START: Mutex<Option<Instant>> = Mutex::new(None);

fn now_ms() -> u64 {
    let g = PROCESS_START.lock().unwrap();
    g.map(|s| s.elapsed().as_millis() as u64 + 1).unwrap_or(1)
}

pub fn case_limit_s() -> u64 {
    std::env::var("VERIF_CASE_LIMIT_S").ok().and_then(|s| s.parse().ok()).unwrap_or(120)
}

fn start_watchdog(prop: &'static str) {
    *PROCESS_START.lock().unwrap() = Some(Instant::now());
    if WATCHDOG_ON.swap(true, Ordering::SeqCst) {
        return;
    }
    let limit = case_limit_s() * 1000;
    std::thread::spawn(move || loop {
        std::thread::sleep(std::time::Duration::from_millis(1000));
        let now = now_ms();
        let st = CASE_START.load(Ordering::Relaxed);
        if st != 0 && now > st && now - st > limit {
            println!("INCONCLUSIVE property={prop} a single case ran longer than {} s; its input is in the journal", limit / 1000);
            std::process::exit(3);
        }
    });
}

struct Slot {
    journal: Option<std::fs::File>,
}

impl Slot {
    fn new(path: PathBuf) -> Slot {
        let journal = if std::env::var_os("VERIF_NO_JOURNAL").is_some() { None } else { std::fs::OpenOptions::new().create(true).write(true).truncate(true).open(path).ok() };
        Slot { journal }
    }
    #[inline]
    fn begin(&self, bytes: &[u8]) {
        if let Some(f) = &self.journal {
            let mut buf = Vec::with_capacity(bytes.len() + 4);
            buf.extend_from_slice(&(bytes.len() as u32).to_le_bytes());
            buf.extend_from_slice(bytes);
            let _ = f.write_all_at(&buf, 0);
        }
        CASE_START.store(now_ms_fast(), Ordering::Relaxed);
    }
    #[inline]
    fn end(&self) {
        CASE_START.store(0, Ordering::Relaxed);
    }
    fn clear(&self) {
        if let Some(f) = &self.journal {
            let _ = f.write_all_at(&0u32.to_le_bytes(), 0);
        }
    }
}

thread_local! {
    static T0: Instant = Instant::now();
}
fn now_ms_fast() -> u64 {
    now_ms()
}

fn hash_bytes(b: &[u8]) -> u64 {
    let mut h = DefaultHasher::new();
    b.hash(&mut h);
    h.finish()
}

fn shard_seed(seed: u64, prop: &str, family: &str, shard: usize) -> [u8; 32] {
    let mut out = [0u8; 32];
    for i in 0..4 {
        let mut h = DefaultHasher::new();
        (seed, prop, family, shard, i as u64, 0x5eed_u64).hash(&mut h);
        out[i * 8..i * 8 + 8].copy_from_slice(&h.finish().to_le_bytes());
    }
    out
}

pub fn work_dir(root: &PathBuf, prop: &str) -> PathBuf {
    root.join("work").join(prop)
}

impl Runner {
    pub fn new(prop: &'static str, tier: Tier, seed: u64, root: PathBuf, mode: Mode, shard: usize, nshards: usize) -> Runner {
        let known = KnownFindings::load(&root);
        let dir = work_dir(&root, prop);
        let _ = std::fs::create_dir_all(&dir);
        start_watchdog(prop);
        let jname = match &mode {
            Mode::Replay { .. } => format!("j.replay.{}", std::process::id()),
            Mode::Fuzz { .. } => format!("j.fuzz.{}", std::process::id()),
            Mode::Run => format!("j.{shard}"),
        };
        Runner {
            prop,
            tier,
            seed,
            root,
            mode,
            shard,
            nshards,
            known,
            rule: String::new(),
            assumptions: vec![],
            extra: BTreeMap::new(),
            total: Acc::default(),
            families: vec![],
            expectations: vec![],
            health_warnings: vec![],
            regression_violations: vec![],
            replay_hit: false,
            replay_failed: false,
            slot: Slot::new(dir.join(jname)),
            shrink_budget: 3000,
        }
    }

    pub fn is_replay(&self) -> bool {
        matches!(self.mode, Mode::Replay { .. })
    }

    /// judge one case, update the accumulator; returns Err(message) on failure
    fn judge<C: Serialize>(&self, acc: &mut Acc, family: &str, case: &C, check: &(impl Fn(&C) -> Outcome + ?Sized), count: bool) -> Result<(), String> {
        let bytes = serde_json::to_vec(&(family, case)).unwrap_or_default();
        self.slot.begin(&bytes);
        let res = guard(|| check(case));
        self.slot.end();
        let out = match res {
            Ok(o) => o,
            Err(p) => {
                if p.in_harness() {
                    if acc.harness_panic.is_none() {
                        acc.harness_panic = Some(format!("{} on case {}", p.short(), String::from_utf8_lossy(&bytes)));
                    }
                    return Ok(());
                }
                Outcome::Fail(format!("unguarded {}", p.short()))
            }
        };
        if count {
            acc.evals += 1;
        }
        let out = match out {
            Outcome::Known { id, what } => {
                if self.known.is_known(self.prop, id) {
                    if count {
                        let e = acc.known.entry(id).or_insert((0, what));
                        e.0 += 1;
                    }
                    return Ok(());
                }
                Outcome::Fail(format!("behaviour matches the recorded defect '{id}', which is not listed as a known finding for {}: {what}", self.prop))
            }
            o => o,
        };
        match out {
            Outcome::Pass { nontrivial, classes } => {
                if count {
                    if nontrivial {
                        if acc.nt.len() < NT_CAP {
                            acc.nt.insert(hash_bytes(&bytes));
                        } else {
                            acc.nt_capped = true;
                        }
                    }
                    for c in classes {
                        let n = acc.classes.entry(c).or_default();
                        *n += 1;
                        if *n <= 2 {
                            let s = acc.samples.entry(c).or_default();
                            if s.len() < 2 {
                                s.push(serde_json::to_value(case).unwrap_or(J::Null));
                            }
                        }
                    }
                }
                Ok(())
            }
            Outcome::Skip(why) => {
                if count {
                    acc.skipped += 1;
                    *acc.classes.entry(why).or_default() += 1;
                }
                Ok(())
            }
            Outcome::Fail(msg) => Err(msg),
            Outcome::Known { .. } => unreachable!(),
        }
    }

    fn regressions_for(&self, family: &str) -> Vec<(PathBuf, J)> {
        let dir = self.root.join("regressions").join(self.prop);
        let mut out = vec![];
        if let Ok(rd) = std::fs::read_dir(&dir) {
            let mut paths: Vec<_> = rd.flatten().map(|e| e.path()).filter(|p| p.extension().map(|e| e == "json").unwrap_or(false)).collect();
            paths.sort();
            for p in paths {
                if let Ok(t) = std::fs::read_to_string(&p) {
                    if let Ok(j) = from_json_unbounded::<J>(t.as_bytes()) {
                        if j.get("family").and_then(|f| f.as_str()) == Some(family) {
                            if let Some(c) = j.get("case") {
                                out.push((p.clone(), c.clone()));
                            }
                        }
                    }
                }
            }
        }
        out
    }

    /// replay-mode and regression handling shared by all family kinds; returns true when the
    /// family body should be skipped (replay mode)
    fn prelude<C: Serialize + DeserializeOwned>(&mut self, family: &str, check: &(impl Fn(&C) -> Outcome + ?Sized)) -> bool {
        if matches!(self.mode, Mode::Fuzz { .. }) {
            return true;
        }
        if let Mode::Replay { family: f, case } = &self.mode.clone() {
            if f == family {
                self.replay_hit = true;
                match serde_json::from_value::<C>(case.clone()) {
                    Ok(c) => {
                        let mut acc = Acc::default();
                        let r = self.judge(&mut acc, family, &c, check, true);
                        if let Some(h) = &acc.harness_panic {
                            println!("HARNESS-PANIC {h}");
                            std::process::exit(2);
                        }
                        match r {
                            Ok(()) => {
                                for (id, (_, ex)) in &acc.known {
                                    println!("KNOWN-FINDING: property={} {} e.g. {}", self.prop, id, ex);
                                }
                                println!("REPLAY-PASS property={} family={family}", self.prop);
                            }
                            Err(m) => {
                                let path = std::env::var("VERIF_REPLAY_PATH").unwrap_or_default();
                                println!("VIOLATION property={} replay={}", self.prop, path);
                                println!("  family={family} {}", m.chars().take(800).collect::<String>());
                                self.replay_failed = true;
                            }
                        }
                    }
                    Err(e) => {
                        println!("HARNESS-ERROR replay case does not decode for family {family}: {e}");
                        std::process::exit(2);
                    }
                }
            }
            return true;
        }
        if self.shard == 0 {
            for (path, cj) in self.regressions_for(family) {
                match serde_json::from_value::<C>(cj.clone()) {
                    Ok(c) => {
                        let mut acc = Acc::default();
                        let r = self.judge(&mut acc, family, &c, check, true);
                        if let Err(m) = r {
                            self.regression_violations.push((family.to_string(), path.to_string_lossy().to_string(), m));
                        }
                        self.merge(acc);
                    }
                    Err(e) => self.health_warnings.push(format!("regression file {} does not decode: {e}", path.display())),
                }
            }
        }
        false
    }

    fn merge(&mut self, o: Acc) {
        let t = &mut self.total;
        t.evals += o.evals;
        t.skipped += o.skipped;
        t.nt.extend(o.nt);
        t.nt_capped |= o.nt_capped;
        for (k, v) in o.classes {
            *t.classes.entry(k).or_default() += v;
        }
        for (k, v) in o.samples {
            let e = t.samples.entry(k).or_default();
            for s in v {
                if e.len() < 2 {
                    e.push(s);
                }
            }
        }
        for (k, (n, ex)) in o.known {
            let e = t.known.entry(k).or_insert((0, ex));
            e.0 += n;
        }
        if t.harness_panic.is_none() {
            t.harness_panic = o.harness_panic;
        }
    }

    fn finish_family(&mut self, family: &str, kind: &str, complete: bool, acc: Acc, fail: Option<(u64, J, String)>) {
        self.families.push(FamilyPart { name: family.to_string(), kind: kind.to_string(), evaluations: acc.evals, complete, fail });
        let hp = acc.harness_panic.clone();
        self.merge(acc);
        if hp.is_some() {
            // stop right here: the part file carries the message, the supervisor exits 2
            let code = self.finish();
            std::process::exit(code);
        }
    }

    /// exhaustive sweep over `count` cases produced by index; this shard takes every `nshards`-th chunk
    pub fn sweep_fn<C, G, F>(&mut self, family: &str, count: u64, make: G, check: F)
    where
        C: Serialize + DeserializeOwned,
        G: Fn(u64) -> C,
        F: Fn(&C) -> Outcome,
    {
        if self.prelude::<C>(family, &check) {
            return;
        }
        const CHUNK: u64 = 64;
        let mut acc = Acc::default();
        let mut fail = None;
        let mut i = self.shard as u64 * CHUNK;
        'outer: while i < count {
            for k in i..(i + CHUNK).min(count) {
                let c = make(k);
                if let Err(m) = self.judge(&mut acc, family, &c, &check, true) {
                    fail = Some((k, serde_json::to_value(&c).unwrap_or(J::Null), m));
                    break 'outer;
                }
                if acc.harness_panic.is_some() {
                    break 'outer;
                }
            }
            i += CHUNK * self.nshards as u64;
        }
        let complete = fail.is_none() && acc.harness_panic.is_none();
        self.finish_family(family, "sweep", complete, acc, fail);
    }

    pub fn sweep<C, F>(&mut self, family: &str, cases: Vec<C>, check: F)
    where
        C: Serialize + DeserializeOwned + Clone,
        F: Fn(&C) -> Outcome,
    {
        let n = cases.len() as u64;
        self.sweep_fn(family, n, |i| cases[i as usize].clone(), check)
    }

    /// proptest-driven random family: `per_shard` cases in this shard, each case decoded from a
    /// vector of at most `choices` u32 choices.  On failure proptest shrinks the choice vector and
    /// a chunk-deleting minimiser runs on top.
    pub fn random<C, G, F>(&mut self, family: &str, choices: usize, per_shard: u64, gen: G, check: F)
    where
        C: Serialize + DeserializeOwned,
        G: Fn(&mut Chooser) -> C,
        F: Fn(&C) -> Outcome,
    {
        if let Mode::Fuzz { family: f } = &self.mode {
            if f == family {
                self.fuzz_loop(family, choices, &gen, &check);
            }
            return;
        }
        if self.prelude::<C>(family, &check) {
            return;
        }
        let mut cfg = Config::default();
        cfg.cases = per_shard.min(u32::MAX as u64) as u32;
        cfg.failure_persistence = None;
        cfg.max_shrink_iters = u32::MAX;
        cfg.max_shrink_time = 0;
        cfg.verbose = 0;
        let rng = TestRng::from_seed(RngAlgorithm::ChaCha, &shard_seed(self.seed, self.prop, family, self.shard));
        let mut runner = TestRunner::new_with_rng(cfg, rng);
        let lo = (choices / 2).max(1);
        let strat = proptest::collection::vec(proptest::num::u32::ANY, lo..=choices.max(lo));
        let failed = std::cell::Cell::new(false);
        let shrink_calls = std::cell::Cell::new(0u32);
        let last_fail: RefCell<Option<Vec<u32>>> = RefCell::new(None);
        let acc_cell = RefCell::new(Acc::default());
        let this = &*self;
        let res = runner.run(&strat, |v| {
            if failed.get() {
                // bound proptest's shrinking by work, not by time: after the budget every candidate
                // "passes", so proptest settles on the best case found so far
                shrink_calls.set(shrink_calls.get() + 1);
                if shrink_calls.get() > this.shrink_budget {
                    return Ok(());
                }
            }
            let c = gen(&mut Chooser::new(&v));
            let mut acc = acc_cell.borrow_mut();
            let r = this.judge(&mut acc, family, &c, &check, !failed.get());
            if acc.harness_panic.is_some() {
                return Err(TestCaseError::fail("harness panic"));
            }
            match r {
                Ok(()) => Ok(()),
                Err(m) => {
                    failed.set(true);
                    // remember the most recent (= most shrunk so far) choice vector that really failed
                    *last_fail.borrow_mut() = Some(v.clone());
                    Err(TestCaseError::fail(m))
                }
            }
        });
        let mut acc = acc_cell.into_inner();
        let mut fail = None;
        if acc.harness_panic.is_none() {
            match res {
                Ok(()) => {}
                Err(TestError::Fail(_, v)) => {
                    // proptest's final value is only trusted if it still fails; otherwise fall back to the last failing vector seen
                    let fails = |v: &[u32]| {
                        let c = gen(&mut Chooser::new(v));
                        let mut scratch = Acc::default();
                        this.judge(&mut scratch, family, &c, &check, false).is_err()
                    };
                    let v = if fails(&v) { v } else { last_fail.borrow().clone().unwrap_or(v) };
                    let v = minimise(v, this.shrink_budget as usize, |v| {
                        let c = gen(&mut Chooser::new(v));
                        let mut scratch = Acc::default();
                        this.judge(&mut scratch, family, &c, &check, false).is_err()
                    });
                    let c = gen(&mut Chooser::new(&v));
                    let mut scratch = Acc::default();
                    let msg = match this.judge(&mut scratch, family, &c, &check, false) {
                        Err(m) => m,
                        Ok(()) => "failure did not reproduce on the shrunk case (non-deterministic check?)".to_string(),
                    };
                    fail = Some((self.shard as u64, serde_json::to_value(&c).unwrap_or(J::Null), msg));
                }
                Err(TestError::Abort(r)) => {
                    acc.harness_panic = Some(format!("proptest aborted: {r}"));
                }
            }
        }
        self.finish_family(family, "random", false, acc, fail);
    }

    /// serve the libFuzzer target: every byte buffer is expanded into a choice sequence, decoded by the family's own
    /// generator and judged by the family's own check (known findings are accepted exactly as in a normal run)
    fn fuzz_loop<C, G, F>(&self, family: &str, choices: usize, gen: &G, check: &F)
    where
        C: Serialize + DeserializeOwned,
        G: Fn(&mut Chooser) -> C,
        F: Fn(&C) -> Outcome,
    {
        let Some((rx, tx)) = FUZZ_BRIDGE.lock().unwrap().take() else { return };
        FUZZ_FAMILY_SEEN.store(true, Ordering::SeqCst);
        while let Ok(req) = rx.recv() {
            let mut v = crate::chooser::bytes_to_choices(&req.data);
            v.truncate(choices.max(1));
            let c = gen(&mut Chooser::new(&v));
            if req.emit_only {
                let _ = tx.send(Some(serde_json::json!({"family": family, "case": c}).to_string()));
                continue;
            }
            let mut acc = Acc::default();
            let r = self.judge(&mut acc, family, &c, check, true);
            let reply = match (r, acc.harness_panic) {
                (_, Some(h)) => Some(serde_json::json!({"family": family, "case": c, "harness_panic": h}).to_string()),
                (Err(m), None) => Some(serde_json::json!({"family": family, "case": c, "message": m}).to_string()),
                (Ok(()), None) => None,
            };
            if tx.send(reply).is_err() {
                break;
            }
        }
    }

    /// a family that runs on shard 0 only, in order (e.g. thread-stress configurations)
    pub fn single<C, F>(&mut self, family: &str, cases: Vec<C>, check: F)
    where
        C: Serialize + DeserializeOwned,
        F: Fn(&C) -> Outcome,
    {
        if self.prelude::<C>(family, &check) {
            return;
        }
        if self.shard != 0 {
            return;
        }
        let mut acc = Acc::default();
        let mut fail = None;
        for (i, c) in cases.iter().enumerate() {
            if let Err(m) = self.judge(&mut acc, family, c, &check, true) {
                fail = Some((i as u64, serde_json::to_value(c).unwrap_or(J::Null), m));
                break;
            }
            if acc.harness_panic.is_some() {
                break;
            }
        }
        self.finish_family(family, "sequence", false, acc, fail);
    }

    /// generator-health expectation: recorded as a warning in the evidence (never a verdict)
    pub fn expect_class(&mut self, class: &'static str, min: u64) {
        self.expectations.push((class.to_string(), min));
    }

    /// worker side: write the part file (and the sorted non-trivial hashes); returns the exit code
    pub fn finish(&mut self) -> i32 {
        self.slot.clear();
        if let Mode::Replay { family, .. } = &self.mode {
            if !self.replay_hit {
                println!("HARNESS-ERROR replay family '{family}' is not part of property {}", self.prop);
                return 2;
            }
            return if self.replay_failed { 1 } else { 0 };
        }
        let dir = work_dir(&self.root, self.prop);
        let mut hashes: Vec<u64> = self.total.nt.iter().copied().collect();
        hashes.sort_unstable();
        let mut bytes = Vec::with_capacity(hashes.len() * 8);
        for h in &hashes {
            bytes.extend_from_slice(&h.to_le_bytes());
        }
        let _ = std::fs::write(dir.join(format!("nt.{}.bin", self.shard)), bytes);
        let t = &self.total;
        let part = Part {
            shard: self.shard,
            evals: t.evals,
            skipped: t.skipped,
            nt_count: hashes.len() as u64,
            nt_capped: t.nt_capped,
            classes: t.classes.iter().map(|(k, v)| (k.to_string(), *v)).collect(),
            samples: t.samples.iter().map(|(k, v)| (k.to_string(), v.clone())).collect(),
            known: t.known.iter().map(|(k, v)| (k.to_string(), v.clone())).collect(),
            families: self.families.clone(),
            harness_panic: t.harness_panic.clone(),
            rule: self.rule.clone(),
            assumptions: self.assumptions.clone(),
            extra: self.extra.clone(),
            expectations: self.expectations.clone(),
            health_warnings: self.health_warnings.clone(),
            regression_violations: self.regression_violations.clone(),
        };
        let _ = std::fs::write(dir.join(format!("part.{}.json", self.shard)), serde_json::to_vec(&part).unwrap());
        0
    }
}

// ------------------------------------------------------------------------------------------------
// supervisor side: merge the shard parts, print verdict lines, write evidence

pub struct Merged {
    pub exit: i32,
}

fn union_count(dir: &PathBuf, nshards: usize) -> u64 {
    // k-way merge of sorted u64 files
    let mut bufs: Vec<Vec<u8>> = (0..nshards).map(|k| std::fs::read(dir.join(format!("nt.{k}.bin"))).unwrap_or_default()).collect();
    let mut pos = vec![0usize; nshards];
    let mut count = 0u64;
    let mut last: Option<u64> = None;
    loop {
        let mut best: Option<(u64, usize)> = None;
        for k in 0..nshards {
            if pos[k] + 8 <= bufs[k].len() {
                let v = u64::from_le_bytes(bufs[k][pos[k]..pos[k] + 8].try_into().unwrap());
                if best.map(|b| v < b.0).unwrap_or(true) {
                    best = Some((v, k));
                }
            }
        }
        let Some((v, k)) = best else { break };
        pos[k] += 8;
        if last != Some(v) {
            count += 1;
            last = Some(v);
        }
    }
    for b in bufs.iter_mut() {
        b.clear();
    }
    count
}

/// serde_json without its 128-level recursion limit: generated cases (long operator chains) nest deeper than that
pub fn from_json_unbounded<T: serde::de::DeserializeOwned>(text: &[u8]) -> Result<T, serde_json::Error> {
    let mut de = serde_json::Deserializer::from_slice(text);
    de.disable_recursion_limit();
    let v = T::deserialize(&mut de)?;
    de.end()?;
    Ok(v)
}

pub fn merge_and_report(prop: &str, tier: Tier, seed: u64, root: &PathBuf, nshards: usize, wall_s: f64) -> i32 {
    let dir = work_dir(root, prop);
    let known = KnownFindings::load(root);
    let mut parts: Vec<Part> = vec![];
    for k in 0..nshards {
        match std::fs::read(dir.join(format!("part.{k}.json"))).ok().and_then(|b| from_json_unbounded::<Part>(&b).ok()) {
            Some(p) => parts.push(p),
            None => {
                println!("INCONCLUSIVE property={prop} shard {k} produced no result");
                return 2;
            }
        }
    }
    for p in &parts {
        if let Some(h) = &p.harness_panic {
            println!("HARNESS-PANIC property={prop} shard={} {h}", p.shard);
            return 2;
        }
    }
    let mut evals = 0;
    let mut skipped = 0;
    let mut capped = false;
    let mut classes: BTreeMap<String, u64> = BTreeMap::new();
    let mut samples: BTreeMap<String, Vec<J>> = BTreeMap::new();
    let mut knownseen: BTreeMap<String, (u64, String)> = BTreeMap::new();
    let mut fams: Vec<(String, String, u64, bool, Option<(u64, J, String)>)> = vec![];
    let mut health: Vec<String> = vec![];
    let mut violations: Vec<(String, String, String)> = vec![];
    for p in &parts {
        evals += p.evals;
        skipped += p.skipped;
        capped |= p.nt_capped;
        for (k, v) in &p.classes {
            *classes.entry(k.clone()).or_default() += v;
        }
        for (k, v) in &p.samples {
            let e = samples.entry(k.clone()).or_default();
            for s in v {
                if e.len() < 2 {
                    e.push(s.clone());
                }
            }
        }
        for (k, (n, ex)) in &p.known {
            let e = knownseen.entry(k.clone()).or_insert((0, ex.clone()));
            e.0 += n;
        }
        for f in &p.families {
            match fams.iter_mut().find(|x| x.0 == f.name) {
                Some(x) => {
                    x.2 += f.evaluations;
                    x.3 &= f.complete;
                    if let Some(ff) = &f.fail {
                        if x.4.as_ref().map(|o| ff.0 < o.0).unwrap_or(true) {
                            x.4 = Some(ff.clone());
                        }
                    }
                }
                None => fams.push((f.name.clone(), f.kind.clone(), f.evaluations, f.complete, f.fail.clone())),
            }
        }
        health.extend(p.health_warnings.iter().cloned());
        for rv in &p.regression_violations {
            violations.push(rv.clone());
        }
    }
    let distinct = union_count(&dir, nshards);
    let p0 = &parts[0];
    for (class, min) in &p0.expectations {
        let n = classes.get(class).copied().unwrap_or(0);
        if n < *min {
            health.push(format!("class '{class}' seen {n} times, expected at least {min}"));
        }
    }
    // violations: one per family (the earliest failure), written as replay files
    let rdir = root.join("replays").join(prop);
    for (name, _, _, _, fail) in &fams {
        if let Some((_, case, msg)) = fail {
            let _ = std::fs::create_dir_all(&rdir);
            let body = json!({"property": prop, "family": name, "case": case, "message": msg, "seed": seed, "tier": tier.name()});
            let h = hash_bytes(serde_json::to_vec(&(name, case)).unwrap_or_default().as_slice());
            let path = rdir.join(format!("{name}-{h:016x}.json"));
            let _ = std::fs::write(&path, serde_json::to_string_pretty(&body).unwrap());
            violations.push((name.clone(), path.to_string_lossy().to_string(), msg.clone()));
        }
    }
    for (family, path, msg) in &violations {
        println!("VIOLATION property={prop} replay={path}");
        println!("  family={family} {}", msg.chars().take(800).collect::<String>());
    }
    for f in known.listed_for(prop) {
        let (n, ex) = knownseen.get(&f.id).cloned().unwrap_or((0, f.example_input.clone()));
        println!("KNOWN-FINDING: property={prop} {} — {} (matched {} generated cases this run; e.g. {})", f.id, f.what_fails, n, ex);
    }
    let mut sample_list: Vec<J> = vec![];
    for (class, ss) in &samples {
        if let Some(s) = ss.first() {
            if sample_list.len() < 40 {
                sample_list.push(json!({"class": class, "case": s}));
            }
        }
    }
    let families: Vec<J> = fams.iter().map(|f| json!({"name": f.0, "kind": f.1, "evaluations": f.2, "exhaustive": f.1 == "sweep" && f.3})).collect();
    let exhaustive_subspaces: Vec<String> = fams.iter().filter(|f| f.1 == "sweep" && f.3).map(|f| format!("{}: {} cases, complete", f.0, f.2)).collect();
    let excluded: u64 = knownseen.values().map(|v| v.0).sum();
    let known_json: BTreeMap<String, J> = knownseen.iter().map(|(k, (n, ex))| (k.clone(), json!({"count": n, "example": ex}))).collect();
    let mut coverage = json!({
        "evaluations": evals,
        "distinct_nontrivial": distinct,
        "distinct_nontrivial_capped": capped,
        "rule": p0.rule,
        "samples": sample_list,
        "classes": classes,
        "families": families,
        "exhaustive_subspaces": exhaustive_subspaces,
        "exhaustive": false,
        "excluded_by_known_finding": excluded,
        "known_findings_seen": known_json,
        "outside_domain_skipped": skipped,
        "health_warnings": health,
        "shards": nshards,
    });
    for (k, v) in &p0.extra {
        coverage[k] = v.clone();
    }
    let ev = json!({
        "property_id": prop,
        "tier": tier.name(),
        "seed": seed as i64,
        "level": "exploration",
        "coverage": coverage,
        "assumptions": p0.assumptions,
        "wall_s": wall_s,
        "violations": violations.len(),
    });
    let edir = root.join("evidence");
    let _ = std::fs::create_dir_all(&edir);
    let _ = std::fs::write(edir.join(format!("{prop}.json")), serde_json::to_string_pretty(&ev).unwrap());
    println!(
        "SUMMARY property={prop} tier={} seed={seed} evaluations={evals} distinct_nontrivial={distinct} known_excluded={excluded} violations={} wall_s={wall_s:.1}",
        tier.name(),
        violations.len()
    );
    for w in &health {
        println!("HEALTH-WARNING {w}");
    }
    // clean the scratch files
    for k in 0..nshards {
        let _ = std::fs::remove_file(dir.join(format!("nt.{k}.bin")));
        let _ = std::fs::remove_file(dir.join(format!("part.{k}.json")));
    }
    if violations.is_empty() {
        0
    } else {
        1
    }
}

/// Greedy minimiser over a choice vector: delete chunks, zero chunks, then halve single values.
/// `still_fails` must be deterministic.
pub fn minimise(mut v: Vec<u32>, budget: usize, still_fails: impl Fn(&[u32]) -> bool) -> Vec<u32> {
    let mut budget = budget;
    let mut size = (v.len() / 2).max(1);
    while size >= 1 && budget > 0 {
        let mut i = 0;
        while i + size <= v.len() && budget > 0 {
            let mut c = v.clone();
            c.drain(i..i + size);
            budget -= 1;
            if still_fails(&c) {
                v = c;
                continue;
            }
            if v[i..i + size].iter().any(|x| *x != 0) {
                let mut c = v.clone();
                for x in &mut c[i..i + size] {
                    *x = 0;
                }
                budget = budget.saturating_sub(1);
                if still_fails(&c) {
                    v = c;
                }
            }
            i += size;
        }
        if size == 1 {
            break;
        }
        size /= 2;
    }
    // per-element lowering
    let mut i = 0;
    while i < v.len() && budget > 0 {
        let mut step = v[i];
        while step > 0 && budget > 0 {
            let mut c = v.clone();
            c[i] = v[i].saturating_sub(step);
            budget -= 1;
            if c[i] != v[i] && still_fails(&c) {
                v = c;
            } else {
                step /= 2;
            }
        }
        i += 1;
    }
    while v.last() == Some(&0) {
        let mut c = v.clone();
        c.pop();
        if still_fails(&c) {
            v = c;
        } else {
            break;
        }
    }
    v
}

// keep the unused-import lints quiet for items only used through generic bounds
#[allow(dead_code)]
fn _unused(_: &dyn Fn() -> Box<dyn ValueTree<Value = u32>>, _: &dyn Fn() -> Box<dyn Strategy<Value = u32, Tree = Box<dyn ValueTree<Value = u32>>>>) {}
