//! Library face of the harness (used by the binary and by the cargo-fuzz targets under /verif/fuzz).
pub mod chooser;
pub mod engine;
pub mod fuzzbridge;
pub mod gen;
pub mod model;
pub mod props;
pub mod selftest;
pub mod sut;
