//! Adapters around the system under test: conversions between the harness' `V` and
//! `cel_interpreter::Value`, guarded compile / execute, error classification.

use crate::engine::{guard, PanicInfo};
use crate::model::{ErrClass, F, V};
use cel_interpreter::objects::{Key, Map};
use cel_interpreter::{Context, ExecutionError, Program, Value};
use std::collections::HashMap;
use std::sync::Arc;

pub fn key_to_cel(k: &V) -> Option<Key> {
    Some(match k {
        V::Int(i) => Key::Int(*i),
        V::UInt(u) => Key::Uint(*u),
        V::Bool(b) => Key::Bool(*b),
        V::Str(s) => Key::String(Arc::new(s.clone())),
        _ => return None,
    })
}

pub fn dur_to_chrono(secs: i64, nanos: u32) -> Option<chrono::Duration> {
    chrono::Duration::new(secs, nanos)
}

pub fn ts_to_chrono(secs: i64, nanos: u32, off: i32) -> Option<chrono::DateTime<chrono::FixedOffset>> {
    let utc = chrono::DateTime::from_timestamp(secs, nanos)?;
    let off = chrono::FixedOffset::east_opt(off)?;
    // (the *local* time may lie outside chrono's range - MAX_UTC at +01:00: a host can build such a value, so can we)
    Some(utc.with_timezone(&off))
}

/// Build a fresh interpreter value (no storage shared with anything else).
/// Values that chrono cannot represent yield `None`.
pub fn to_cel(v: &V) -> Option<Value> {
    Some(match v {
        V::Null => Value::Null,
        V::Bool(b) => Value::Bool(*b),
        V::Int(i) => Value::Int(*i),
        V::UInt(u) => Value::UInt(*u),
        V::Float(f) => Value::Float(f.0),
        // collections and strings go through the crate's public conversions (`From<&str>`, `From<String>`, `From<Vec<T>>`,
        // `From<Vec<u8>>`, `From<HashMap<K, V>>`) wherever one applies - that is how a host builds them
        V::Str(s) => {
            if s.len() % 2 == 0 {
                Value::from(s.as_str())
            } else {
                Value::from(s.clone())
            }
        }
        V::Bytes(b) => Value::from(b.clone()),
        V::List(xs) => Value::from(xs.iter().map(to_cel).collect::<Option<Vec<Value>>>()?),
        V::Map(es) => {
            let vals = es.iter().map(|(_, v)| to_cel(v)).collect::<Option<Vec<Value>>>()?;
            let all = |p: fn(&V) -> bool| !es.is_empty() && es.iter().all(|(k, _)| p(k));
            if all(|k| matches!(k, V::Int(_))) {
                let m: HashMap<i64, Value> = es.iter().zip(vals).map(|((k, _), v)| (if let V::Int(i) = k { *i } else { 0 }, v)).collect();
                Value::from(m)
            } else if all(|k| matches!(k, V::UInt(_))) {
                let m: HashMap<u64, Value> = es.iter().zip(vals).map(|((k, _), v)| (if let V::UInt(i) = k { *i } else { 0 }, v)).collect();
                Value::from(m)
            } else if all(|k| matches!(k, V::Bool(_))) {
                let m: HashMap<bool, Value> = es.iter().zip(vals).map(|((k, _), v)| (matches!(k, V::Bool(true)), v)).collect();
                Value::from(m)
            } else if all(|k| matches!(k, V::Str(_))) {
                let m: HashMap<String, Value> = es.iter().zip(vals).map(|((k, _), v)| (if let V::Str(s) = k { s.clone() } else { String::new() }, v)).collect();
                Value::from(m)
            } else {
                let mut m = HashMap::new();
                for ((k, _), v) in es.iter().zip(vals) {
                    m.insert(key_to_cel(k)?, v);
                }
                Value::Map(Map { map: Arc::new(m) })
            }
        }
        V::Dur(s, n) => Value::Duration(dur_to_chrono(*s, *n)?),
        V::Ts(s, n, o) => Value::Timestamp(ts_to_chrono(*s, *n, *o)?),
        V::Func(name, t) => Value::Function(
            Arc::new(name.clone()),
            match t {
                None => None,
                Some(b) => Some(Box::new(to_cel(b)?)),
            },
        ),
    })
}

pub fn key_from_cel(k: &Key) -> V {
    match k {
        Key::Int(i) => V::Int(*i),
        Key::Uint(u) => V::UInt(*u),
        Key::Bool(b) => V::Bool(*b),
        Key::String(s) => V::Str(s.to_string()),
    }
}

pub fn from_cel(v: &Value) -> V {
    match v {
        Value::Null => V::Null,
        Value::Bool(b) => V::Bool(*b),
        Value::Int(i) => V::Int(*i),
        Value::UInt(u) => V::UInt(*u),
        Value::Float(f) => V::Float(F(*f)),
        Value::String(s) => V::Str(s.to_string()),
        Value::Bytes(b) => V::Bytes(b.to_vec()),
        Value::List(xs) => V::List(xs.iter().map(from_cel).collect()),
        Value::Map(m) => V::Map(m.map.iter().map(|(k, v)| (key_from_cel(k), from_cel(v))).collect()),
        Value::Duration(d) => {
            let total = d.num_seconds() as i128 * 1_000_000_000 + d.subsec_nanos() as i128;
            V::dur_ns(total)
        }
        Value::Timestamp(t) => V::Ts(t.timestamp(), t.timestamp_subsec_nanos(), t.offset().local_minus_utc()),
        Value::Function(n, t) => V::Func(n.to_string(), t.as_ref().map(|b| Box::new(from_cel(b)))),
    }
}

pub fn classify(e: &ExecutionError) -> ErrClass {
    match e {
        ExecutionError::NoSuchKey(_) => return ErrClass::NoSuchKey,
        ExecutionError::UndeclaredReference(n) => return ErrClass::Undeclared(n.to_string()),
        _ => {}
    }
    let msg = e.to_string().to_lowercase();
    // Debug renderings of operand *values* may contain arbitrary user text; look only at the head
    let head: String = msg.chars().take(48).collect();
    if head.contains("overflow") || matches!(e, ExecutionError::FunctionError { message, .. } if message.to_lowercase().contains("overflow")) {
        ErrClass::Overflow
    } else if head.contains("by zero") {
        ErrClass::ZeroDivisor
    } else {
        ErrClass::Other
    }
}

/// result of running something in the interpreter
#[derive(Clone, Debug)]
pub enum R {
    Val(V),
    Err(ErrClass, String),
    Panic(PanicInfo),
}

impl R {
    pub fn show(&self) -> String {
        match self {
            R::Val(v) => format!("Ok({})", show_v(v)),
            R::Err(c, m) => format!("Err[{c:?}]({})", trunc(m, 160)),
            R::Panic(p) => p.short(),
        }
    }
    pub fn is_panic(&self) -> bool {
        matches!(self, R::Panic(_))
    }
}

pub fn trunc(s: &str, n: usize) -> String {
    if s.chars().count() <= n {
        s.to_string()
    } else {
        let t: String = s.chars().take(n).collect();
        format!("{t}…")
    }
}

pub fn show_v(v: &V) -> String {
    trunc(&format!("{v:?}"), 300)
}

pub fn from_result(r: Result<Value, ExecutionError>) -> R {
    match r {
        Ok(v) => R::Val(from_cel(&v)),
        Err(e) => R::Err(classify(&e), e.to_string()),
    }
}

/// compile, panic-safe.  Ok(Ok(program)) | Ok(Err(rendered parse errors)) | Err(panic)
pub fn compile(src: &str) -> Result<Result<Program, String>, PanicInfo> {
    guard(|| match Program::compile(src) {
        Ok(p) => Ok(p),
        Err(e) => Err(e.to_string()),
    })
}

pub fn exec(p: &Program, ctx: &Context) -> R {
    match guard(|| p.execute(ctx)) {
        Ok(r) => from_result(r),
        Err(p) => R::Panic(p),
    }
}

/// Context::default() plus the given variables (each converted to a fresh value)
/// a reference value seen through serde: integers in one of the Rust types that hold them (i8 ... u64), strings,
/// bytes, sequences, maps with keys of the same kinds, durations and timestamps through the crate's wrappers
pub struct SerdeV<'a>(pub &'a V);

impl serde::Serialize for SerdeV<'_> {
    fn serialize<Z: serde::Serializer>(&self, z: Z) -> Result<Z::Ok, Z::Error> {
        use serde::ser::{SerializeMap, SerializeSeq};
        match self.0 {
            V::Null => z.serialize_unit(),
            V::Bool(b) => z.serialize_bool(*b),
            // any width that holds the number, chosen by the number itself (so every width occurs, for small values too)
            V::Int(i) => {
                let fits = [i8::try_from(*i).is_ok(), i16::try_from(*i).is_ok(), i32::try_from(*i).is_ok(), true];
                let first = fits.iter().position(|f| *f).unwrap();
                match first + (i.unsigned_abs() as usize ^ (*i < 0) as usize) % (4 - first) {
                    0 => z.serialize_i8(*i as i8),
                    1 => z.serialize_i16(*i as i16),
                    2 => z.serialize_i32(*i as i32),
                    _ => z.serialize_i64(*i),
                }
            }
            V::UInt(u) => {
                let fits = [u8::try_from(*u).is_ok(), u16::try_from(*u).is_ok(), u32::try_from(*u).is_ok(), true];
                let first = fits.iter().position(|f| *f).unwrap();
                match first + (*u as usize) % (4 - first) {
                    0 => z.serialize_u8(*u as u8),
                    1 => z.serialize_u16(*u as u16),
                    2 => z.serialize_u32(*u as u32),
                    _ => z.serialize_u64(*u),
                }
            }
            V::Float(f) => z.serialize_f64(f.0),
            V::Str(s) => z.serialize_str(s),
            V::Bytes(b) => z.serialize_bytes(b),
            V::List(xs) => {
                let mut s = z.serialize_seq(Some(xs.len()))?;
                for x in xs {
                    s.serialize_element(&SerdeV(x))?;
                }
                s.end()
            }
            V::Map(es) => {
                let mut s = z.serialize_map(Some(es.len()))?;
                for (k, v) in es {
                    s.serialize_entry(&SerdeV(k), &SerdeV(v))?;
                }
                s.end()
            }
            V::Dur(secs, nanos) => match dur_to_chrono(*secs, *nanos) {
                Some(d) => cel_interpreter::Duration(d).serialize(z),
                None => Err(serde::ser::Error::custom("not representable")),
            },
            V::Ts(secs, nanos, off) => match ts_to_chrono(*secs, *nanos, *off) {
                Some(t) => cel_interpreter::Timestamp(t).serialize(z),
                None => Err(serde::ser::Error::custom("not representable")),
            },
            V::Func(..) => Err(serde::ser::Error::custom("function values have no serde form")),
        }
    }
}

/// The context of a case: `Context::default()` plus the variables.  About one variable in three reaches it the way
/// host data usually does - `Context::add_variable` with a `Serialize` value - instead of as a ready-made `Value`
/// (the choice is a function of the variable, so a case always builds the same context).
pub fn ctx_with(vars: &[(String, V)]) -> Context<'static> {
    let mut c = Context::default();
    for (n, v) in vars {
        // (function values have no serde form; the Timestamp wrapper travels as RFC 3339 text, which spells offsets in whole minutes)
        let through_serde = !v.any(&|x| matches!(x, V::Func(..)) || matches!(x, V::Ts(_, _, off) if off % 60 != 0)) && format!("{n}{v:?}").bytes().fold(0u32, |h, x| h.wrapping_mul(31).wrapping_add(x as u32)) % 3 == 0;
        if through_serde {
            // (a conversion that fails or panics is C17's to report; here the variable then goes in directly)
            if let Ok(Ok(())) = guard(|| c.add_variable(n.clone(), SerdeV(v)).map_err(|_| ())) {
                continue;
            }
        }
        if let Some(cv) = to_cel(v) {
            c.add_variable_from_value(n.clone(), cv);
        }
    }
    c
}

pub enum Ran {
    /// source did not compile (rendered errors)
    NoCompile(String),
    CompilePanic(PanicInfo),
    Done(R),
}

thread_local! {
    /// the program of the previous case (see `warm`)
    static PREVIOUS: std::cell::RefCell<Option<Program>> = const { std::cell::RefCell::new(None) };
}

/// Before the program under test runs, the *previous* case's program is executed against the same fresh context and its
/// outcome thrown away.  Executing a program never changes the context it ran against (C05), so on a correct implementation
/// this is invisible; an implementation that keeps per-context state keyed by something that is only unique within one
/// program (expression ids, call sites, literal positions) answers the program under test with the other program's data.
pub fn warm(ctx: &Context) {
    if let Some(p) = PREVIOUS.with(|c| c.borrow_mut().take()) {
        let _ = guard(|| p.execute(ctx).map(|_| ()).map_err(|_| ()));
    }
}

pub fn remember(p: Program) {
    PREVIOUS.with(|c| *c.borrow_mut() = Some(p));
}

pub fn run_src(src: &str, vars: &[(String, V)]) -> Ran {
    match compile(src) {
        Err(p) => Ran::CompilePanic(p),
        Ok(Err(e)) => Ran::NoCompile(e),
        Ok(Ok(p)) => {
            let ctx = ctx_with(vars);
            warm(&ctx);
            let r = exec(&p, &ctx);
            remember(p);
            Ran::Done(r)
        }
    }
}

/// like `run_src`, but timestamp / duration variables reach the context through the crate's serde wrappers
/// (`cel_interpreter::Timestamp`, `cel_interpreter::Duration`) instead of as ready-made values
pub fn run_src_wrapped(src: &str, vars: &[(String, V)]) -> Ran {
    match compile(src) {
        Err(p) => Ran::CompilePanic(p),
        Ok(Err(e)) => Ran::NoCompile(e),
        Ok(Ok(p)) => {
            let mut ctx = Context::default();
            for (n, v) in vars {
                let r = guard(|| match v {
                    V::Ts(s, ns, o) => match ts_to_chrono(*s, *ns, *o) {
                        Some(dt) => ctx.add_variable(n.as_str(), cel_interpreter::Timestamp(dt)).map_err(|e| e.to_string()),
                        None => Err("not representable".to_string()),
                    },
                    V::Dur(secs, nanos) => match dur_to_chrono(*secs, *nanos) {
                        Some(d) => ctx.add_variable(n.as_str(), cel_interpreter::Duration(d)).map_err(|e| e.to_string()),
                        None => Err("not representable".to_string()),
                    },
                    other => match to_cel(other) {
                        Some(c) => {
                            ctx.add_variable_from_value(n.as_str(), c);
                            Ok(())
                        }
                        None => Err("not representable".to_string()),
                    },
                });
                match r {
                    Ok(Ok(())) => {}
                    Ok(Err(e)) => return Ran::Done(R::Err(ErrClass::Other, format!("add_variable: {e}"))),
                    Err(p) => return Ran::Done(R::Panic(p)),
                }
            }
            warm(&ctx);
            let r = exec(&p, &ctx);
            remember(p);
            Ran::Done(r)
        }
    }
}

/// One compiled program executed first against the usual context (`Context::default()` + variables) and then, the same
/// `Program` value, against a context built from `Context::empty()` with the same variables and no functions at all.
/// Returns the second outcome.
pub fn run_then_on_empty(src: &str, vars: &[(String, V)]) -> Ran {
    match compile(src) {
        Err(p) => Ran::CompilePanic(p),
        Ok(Err(e)) => Ran::NoCompile(e),
        Ok(Ok(p)) => {
            let ctx = ctx_with(vars);
            let _ = exec(&p, &ctx);
            let mut bare = Context::empty();
            for (n, v) in vars {
                if let Some(c) = to_cel(v) {
                    bare.add_variable_from_value(n.as_str(), c);
                }
            }
            Ran::Done(exec(&p, &bare))
        }
    }
}

impl Ran {
    pub fn show(&self) -> String {
        match self {
            Ran::NoCompile(e) => format!("compile error: {}", trunc(e, 200)),
            Ran::CompilePanic(p) => format!("compile {}", p.short()),
            Ran::Done(r) => r.show(),
        }
    }
}

// ------------------------------------------------------------------------------------------------
// host functions shared by the model-based properties (semantics mirrored in model::eval::eval_host)

use crate::model::eval::{show_key, Table};
use cel_interpreter::extractors::{Arguments, Identifier, This};
use cel_interpreter::ResolveResult;
use std::sync::Mutex;

pub type Log = Arc<Mutex<Vec<String>>>;

pub fn new_log() -> Log {
    Arc::new(Mutex::new(Vec::new()))
}

fn boom(name: &str) -> ExecutionError {
    ExecutionError::function_error(name, "boom")
}

pub fn install_host(ctx: &mut Context, log: &Log, table: &Table) {
    // functions registered under the internal names of the operators: operators are not looked up in the registry, so
    // these never run - and if one ever does, its log entry has no counterpart in the reference semantics
    for op in ["_+_", "_-_", "_*_", "_/_", "_%_", "_==_", "_<_", "_[_]", "@in", "_&&_", "_||_", "!_", "-_"] {
        let l = log.clone();
        ctx.add_function(op, move |Arguments(args): Arguments| -> ResolveResult {
            l.lock().unwrap().push(format!("operator-function:{op}/{}", args.len()));
            Ok(Value::Null)
        });
    }
    let l = log.clone();
    ctx.add_function("t", move |id: Value, v: Value| -> ResolveResult {
        l.lock().unwrap().push(format!("t:{}", show_key(&from_cel(&id))));
        Ok(v)
    });
    let l = log.clone();
    ctx.add_function("tf", move |id: Value, _v: Value| -> ResolveResult {
        l.lock().unwrap().push(format!("tf:{}", show_key(&from_cel(&id))));
        Err(boom("tf"))
    });
    let l = log.clone();
    ctx.add_function("fail", move || -> ResolveResult {
        l.lock().unwrap().push("fail".into());
        Err(boom("fail"))
    });
    let l = log.clone();
    ctx.add_function("fail1", move |_a: Value| -> ResolveResult {
        l.lock().unwrap().push("fail1".into());
        Err(boom("fail1"))
    });
    let l = log.clone();
    ctx.add_function("noop", move || -> ResolveResult {
        l.lock().unwrap().push("noop".into());
        Ok(Value::Null)
    });
    let l = log.clone();
    ctx.add_function("h0", move || -> ResolveResult {
        l.lock().unwrap().push("h0".into());
        Ok(Value::Int(0))
    });
    let l = log.clone();
    ctx.add_function("h1", move |a: Value| -> ResolveResult {
        l.lock().unwrap().push("h1".into());
        Ok(a)
    });
    let l = log.clone();
    ctx.add_function("h2", move |a: Value, _b: Value| -> ResolveResult {
        l.lock().unwrap().push("h2".into());
        Ok(a)
    });
    let l = log.clone();
    ctx.add_function("h3", move |a: Value, _b: Value, _c: Value| -> ResolveResult {
        l.lock().unwrap().push("h3".into());
        Ok(a)
    });
    let l = log.clone();
    ctx.add_function("h4", move |a: Value, _b: Value, _c: Value, _d: Value| -> ResolveResult {
        l.lock().unwrap().push("h4".into());
        Ok(a)
    });
    let l = log.clone();
    ctx.add_function("m0", move |This(this): This<Value>| -> ResolveResult {
        l.lock().unwrap().push("m0".into());
        Ok(this)
    });
    let l = log.clone();
    ctx.add_function("m1", move |This(this): This<Value>, _a: Value| -> ResolveResult {
        l.lock().unwrap().push("m1".into());
        Ok(this)
    });
    let l = log.clone();
    ctx.add_function("m2", move |This(this): This<Value>, _a: Value, _b: Value| -> ResolveResult {
        l.lock().unwrap().push("m2".into());
        Ok(this)
    });
    let l = log.clone();
    ctx.add_function("m3", move |This(this): This<Value>, _a: Value, _b: Value, _c: Value| -> ResolveResult {
        l.lock().unwrap().push("m3".into());
        Ok(this)
    });
    let l = log.clone();
    ctx.add_function("va", move |Arguments(args): Arguments| -> ResolveResult {
        l.lock().unwrap().push("va".into());
        Ok(Value::List(args))
    });
    let l = log.clone();
    ctx.add_function("idf", move |Identifier(name): Identifier| -> ResolveResult {
        l.lock().unwrap().push(format!("idf:{name}"));
        Ok(Value::String(name))
    });
    let l = log.clone();
    ctx.add_function("peek", |ftx: &cel_interpreter::FunctionContext, name: Arc<String>| -> ResolveResult { ftx.ptx.get_variable(name.as_str()) });
    ctx.add_function("thisopt", move |This(x): This<Option<i64>>| -> ResolveResult {
        l.lock().unwrap().push(format!("thisopt:{x:?}"));
        Ok(x.map(Value::Int).unwrap_or(Value::Null))
    });
    let l = log.clone();
    let tb = table.clone();
    ctx.add_function("q", move |a: Value| -> ResolveResult {
        let key = from_cel(&a);
        l.lock().unwrap().push(format!("q:{}", show_key(&key)));
        match tb.iter().find(|(k, _)| crate::model::same(k, &key)) {
            Some((_, Some(v))) => to_cel(v).ok_or_else(|| boom("q")),
            Some((_, None)) => Err(boom("q")),
            None => Ok(Value::Bool(false)),
        }
    });
    let l = log.clone();
    let tb = table.clone();
    ctx.add_function("q2", move |a: Value, b: Value| -> ResolveResult {
        let key = V::List(vec![from_cel(&a), from_cel(&b)]);
        l.lock().unwrap().push(format!("q2:{}", show_key(&key)));
        match tb.iter().find(|(k, _)| crate::model::same(k, &key)) {
            Some((_, Some(v))) => to_cel(v).ok_or_else(|| boom("q2")),
            Some((_, None)) => Err(boom("q2")),
            None => Ok(Value::Bool(false)),
        }
    });
}

/// compile + execute `src` against Context::default() + host functions + vars; returns the run and the host log
pub fn run_logged(src: &str, vars: &[(String, V)], table: &Table) -> (Ran, Vec<String>) {
    match compile(src) {
        Err(p) => (Ran::CompilePanic(p), vec![]),
        Ok(Err(e)) => (Ran::NoCompile(e), vec![]),
        Ok(Ok(p)) => {
            let log = new_log();
            let mut ctx = ctx_with(vars);
            install_host(&mut ctx, &log, table);
            warm(&ctx);
            log.lock().unwrap().clear();
            let r = exec(&p, &ctx);
            let l = log.lock().unwrap().clone();
            remember(p);
            (Ran::Done(r), l)
        }
    }
}
