//! Golden vectors against the oracles themselves (DESIGN §2.4).
pub fn run() -> Vec<String> {
    let mut errs = vec![];
    let mut ck = |name: &str, ok: bool| {
        if !ok {
            errs.push(name.to_string());
        }
    };
    use crate::model::num::*;
    use std::cmp::Ordering::*;
    ck("cmp 2^53+1 vs 2^53", cmp_int_f64(9007199254740993, 9007199254740992.0) == Some(Greater));
    ck("cmp i64max vs 2^63", cmp_int_f64(i64::MAX as i128, 9223372036854775808.0) == Some(Less));
    ck("cmp u64max vs 2^64", cmp_int_f64(u64::MAX as i128, 18446744073709551616.0) == Some(Less));
    ck("cmp 1 vs 1.5", cmp_int_f64(1, 1.5) == Some(Less));
    ck("cmp -1 vs -1.5", cmp_int_f64(-1, -1.5) == Some(Greater));
    ck("cmp nan", cmp_int_f64(0, f64::NAN).is_none());
    ck("nearest 2^53+1", nearest_f64(9007199254740993) == 9007199254740992.0);
    ck("nearest 2^53+3", nearest_f64(9007199254740995) == 9007199254740996.0);
    ck("nearest u64max", nearest_f64(u64::MAX as i128) == 18446744073709551616.0);
    ck("nearest i64min", nearest_f64(i64::MIN as i128) == -9223372036854775808.0);
    ck("boundary sizes", i64_boundary().len() >= 60 && u64_boundary().len() >= 60);
    errs
}
