//! Golden vectors against the oracles themselves (DESIGN §2.4).
pub fn run() -> Vec<String> {
    let mut errs = vec![];
    let mut ck = |name: &str, ok: bool| {
        if !ok {
            errs.push(name.to_string());
        }
    };
    use crate::model::num::*;
    use std::cmp::Ordering::*;
    ck("cmp 2^53+1 vs 2^53", cmp_int_f64(9007199254740993, 9007199254740992.0) == Some(Greater));
    ck("cmp i64max vs 2^63", cmp_int_f64(i64::MAX as i128, 9223372036854775808.0) == Some(Less));
    ck("cmp u64max vs 2^64", cmp_int_f64(u64::MAX as i128, 18446744073709551616.0) == Some(Less));
    ck("cmp 1 vs 1.5", cmp_int_f64(1, 1.5) == Some(Less));
    ck("cmp -1 vs -1.5", cmp_int_f64(-1, -1.5) == Some(Greater));
    ck("cmp nan", cmp_int_f64(0, f64::NAN).is_none());
    ck("nearest 2^53+1", nearest_f64(9007199254740993) == 9007199254740992.0);
    ck("nearest 2^53+3", nearest_f64(9007199254740995) == 9007199254740996.0);
    ck("nearest u64max", nearest_f64(u64::MAX as i128) == 18446744073709551616.0);
    ck("nearest i64min", nearest_f64(i64::MIN as i128) == -9223372036854775808.0);
    ck("boundary sizes", i64_boundary().len() >= 60 && u64_boundary().len() >= 60);
    ck("exact 0.1", exact_decimal(0.1).as_deref() == Some("0.1000000000000000055511151231257827021181583404541015625"));
    ck("exact 1.5", exact_decimal(1.5).as_deref() == Some("1.5"));
    ck("exact 2^53", exact_decimal(9007199254740992.0).as_deref() == Some("9007199254740992.0"));
    ck("exact -0", exact_decimal(-0.0).as_deref() == Some("-0.0"));
    ck("exact min subnormal", exact_decimal(f64::from_bits(1)).map(|s| s.starts_with("0.000") && s.ends_with("4940656458412465441765687928682213723650598026143247644255856825006755072702087518652998363616359923797965646954457177309266567103559397963987747960107818781263007131903114045278458171678489821036887186360569987307230500063874091535649843873124733972731696151400317153853980741262385655911710266585566867681870395603106249319452715914924553293054565444011274801297099995419319894090804165633245247571478690147267801593552386115501348035264934720193790268107107491703332226844753335720832431936092382893458368060106011506169809753078342277318329247904982524730776375927247874656084778203734469699533647017972677717585125660551199131504891101451037862738167250955837389733598993664809941164205702637090279242767544565229087538682506419718265533447265625")).unwrap_or(false));
    {
        use crate::model::dur::*;
        // Go documentation examples for time.Duration.String and time.ParseDuration
        for (ns, want) in [(0i128, "0s"), (1, "1ns"), (1100, "1.1µs"), (2200000, "2.2ms"), (3300000000, "3.3s"), (245000000000, "4m5s"), (245001000000, "4m5.001s"), (18367001000000, "5h6m7.001s"), (480000000001, "8m0.000000001s"),
            (i64::MAX as i128, "2562047h47m16.854775807s"), (i64::MIN as i128, "-2562047h47m16.854775808s"), (5400000000000, "1h30m0s"), (1500000, "1.5ms"), (-2000000000, "-2s"), (60000000000, "1m0s"), (3600000000000, "1h0m0s"), (999, "999ns"), (1000, "1µs")] {
            ck(&format!("go_format {ns}"), go_format(ns) == want);
            ck(&format!("parse(go_format {ns})"), matches!(parse(want), Parsed::Ok { lo, hi, .. } if lo == ns && hi == ns));
        }
        ck("parse 1.5h", matches!(parse("1.5h"), Parsed::Ok { lo: 5400000000000, hi: 5400000000000, .. }));
        ck("parse 1h10m10s", matches!(parse("1h10m10s"), Parsed::Ok { lo: 4210000000000, .. }));
        ck("parse -1.5h", matches!(parse("-1.5h"), Parsed::Ok { lo: -5400000000000, .. }));
        ck("parse 1.1ns inexact", matches!(parse("1.1ns"), Parsed::Ok { lo: 1, hi: 2, .. }));
        for bad in ["", "3", "-", "s", ".", "-.", ".s", "+.s", "1d", "1s foo", "1 s", "1e3s", "infs", "--1s", "1s-1s"] {
            ck(&format!("parse malformed {bad:?}"), matches!(parse(bad), Parsed::Malformed(_)));
        }
    }
    {
        use crate::model::cal::*;
        ck("1970-01-01 is day 0", days_from_civil(1970, 1, 1) == 0);
        ck("1970-01-01 Thursday", fields(0, 0, 0).weekday == 4);
        ck("2000-02-29 Tuesday", fields(instant(2000, 2, 29, 0, 0, 0, 0), 0, 0).weekday == 2);
        ck("2000-03-01 instant", instant(2000, 3, 1, 0, 0, 0, 0) == 951868800);
        ck("2038 rollover", fields(2147483648, 0, 0) == Fields { year: 2038, month: 1, day: 19, hour: 3, minute: 14, second: 8, nanos: 0, weekday: 2, day_of_year: 18 });
        ck("0001-01-01", instant(1, 1, 1, 0, 0, 0, 0) == -62135596800 && fields(-62135596800, 0, 0).weekday == 1);
        ck("9999-12-31", instant(9999, 12, 31, 23, 59, 59, 0) == 253402300799 && fields(253402300799, 0, 0).day_of_year == 364);
        ck("1900 not leap, 2000 leap", !is_leap(1900) && is_leap(2000) && !is_leap(2100) && is_leap(2024));
        ck("2023-05-28 is a Sunday, day 147", { let f = fields(instant(2023, 5, 28, 0, 0, 0, 0), 0, 0); f.weekday == 0 && f.day_of_year == 147 });
        for z in [-800000i64, -1, 0, 1, 59, 60, 365, 366, 11016, 2932896] {
            let (y, m, d) = civil_from_days(z);
            ck(&format!("civil round trip {z}"), days_from_civil(y, m, d) == z);
        }
        ck("offset moves the date", { let f = fields(instant(2024, 1, 1, 0, 30, 0, 0), 0, -3600); (f.year, f.month, f.day, f.hour, f.day_of_year) == (2023, 12, 31, 23, 364) });
        ck("rfc3339 write", rfc3339(0, 500_000_000, 3600, 3, true) == "1970-01-01T01:00:00.500+01:00" && rfc3339(0, 0, 0, 0, true) == "1970-01-01T00:00:00Z");
        ck("rfc3339 read", parse_rfc3339("1996-12-19T16:39:57-08:00") == Some((851042397, 0, -28800)) && parse_rfc3339("1985-04-12T23:20:50.52Z") == Some((482196050, 520_000_000, 0)));
        ck("rfc3339 read rejects", parse_rfc3339("1985-04-12T23:20:50").is_none() && parse_rfc3339("1985-02-30T00:00:00Z").is_none());
    }
    {
        use crate::props::c18::base64;
        // RFC 4648 section 10 test vectors
        for (i, o) in [("", ""), ("f", "Zg=="), ("fo", "Zm8="), ("foo", "Zm9v"), ("foob", "Zm9vYg=="), ("fooba", "Zm9vYmE="), ("foobar", "Zm9vYmFy")] {
            ck(&format!("base64 {i:?}"), base64(i.as_bytes()) == o);
        }
        ck("base64 +/", base64(&[0xfb, 0xff, 0xbe]) == "+/++");
    }
    errs
}
