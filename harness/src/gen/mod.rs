//! generators
