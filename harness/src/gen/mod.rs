//! Shared generators (DESIGN §3): values, typed expressions, untyped expressions, tokens.
pub mod tokens;
pub mod typed;
pub mod untyped;

use crate::chooser::Chooser;
use crate::model::num::{f64_boundary, i64_boundary, u64_boundary};
use crate::model::{F, V};

pub const STR_POOL: [&str; 22] = ["", "a", "b", "ab", "abc", "z", "aa", "é", "ä", "日本", "𝄞", "a\"b", "x\\y", "l\nb", " ", "0", "1", "true", "k", "key", "A", "\u{10000}"];

pub fn gen_i64(u: &mut Chooser) -> i64 {
    match u.below(5) {
        0 => u.range(-3, 10),
        1 => *u.pick(&i64_boundary()),
        2 => u.pick(&i64_boundary()).wrapping_add(u.range(-2, 2)),
        3 => u.log_i64(),
        _ => u.bits64() as i64,
    }
}

pub fn gen_u64(u: &mut Chooser) -> u64 {
    match u.below(5) {
        0 => u.range(0, 10) as u64,
        1 => *u.pick(&u64_boundary()),
        2 => u.pick(&u64_boundary()).wrapping_add(u.range(-2, 2) as u64),
        3 => u.log_u64(),
        _ => u.bits64(),
    }
}

pub fn gen_f64(u: &mut Chooser) -> f64 {
    match u.below(5) {
        0 => u.range(-4, 8) as f64 * 0.5,
        1 => *u.pick(&f64_boundary()),
        2 => u.log_i64() as f64,
        3 => (u.log_i64() as f64) / 1024.0,
        _ => f64::from_bits(u.bits64()),
    }
}

pub fn gen_finite_f64(u: &mut Chooser) -> f64 {
    let f = gen_f64(u);
    if f.is_finite() {
        f
    } else {
        1.5
    }
}

pub fn gen_string(u: &mut Chooser) -> String {
    match u.below(4) {
        0 | 1 => u.pick(&STR_POOL).to_string(),
        2 => {
            let n = u.below(6);
            let alpha: Vec<char> = "abcxyz01 _é".chars().collect();
            (0..n).map(|_| *u.pick(&alpha)).collect()
        }
        _ => {
            let n = u.below(5);
            let alpha: Vec<char> = "aZ9\"'\\\n\t\r\u{0}\u{7f}é日𝄞 `?".chars().collect();
            (0..n).map(|_| *u.pick(&alpha)).collect()
        }
    }
}

pub fn gen_bytes(u: &mut Chooser) -> Vec<u8> {
    match u.below(4) {
        0 => vec![],
        1 => u.pick(&[&b"abc"[..], &b"a"[..], &[0u8][..], &[0xff, 0xfe][..], &[0xc3, 0x28][..], "é".as_bytes()]).to_vec(),
        _ => {
            let n = u.below(6);
            (0..n).map(|_| u.below(256) as u8).collect()
        }
    }
}

/// durations as (secs, nanos): boundary-biased, including values beyond ±2^63 ns and chrono's limits
pub fn gen_dur(u: &mut Chooser) -> V {
    let i64max = i64::MAX as i128;
    let pool: [i128; 22] = [
        0,
        1,
        -1,
        999,
        -999,
        1_000,
        1_000_000,
        -1_000_000,
        1_000_000_000,
        -1_000_000_000,
        59_999_999_999,
        60_000_000_000,
        3_600_000_000_000,
        -3_600_000_000_000,
        i64max,
        -i64max,
        -i64max - 1,
        i64max + 1,
        -i64max - 2,
        i64max * 3,
        (i64::MAX / 1000) as i128 * 1_000_000_000,        // near chrono::Duration::MAX (i64::MAX ms)
        -((i64::MAX / 1000) as i128) * 1_000_000_000,
    ];
    let ns = match u.below(3) {
        0 => *u.pick(&pool),
        1 => u.log_i64() as i128,
        _ => u.pick(&pool) + u.range(-2, 2) as i128,
    };
    V::dur_ns(ns)
}

pub fn gen_ts(u: &mut Chooser) -> V {
    // seconds for 0001-01-01T00:00:00Z and 9999-12-31T23:59:59Z
    const MIN_S: i64 = -62135596800;
    const MAX_S: i64 = 253402300799;
    let secs = match u.below(5) {
        4 => {
            // within 400 days of chrono's limits
            if u.flip() {
                -8_334_601_228_800 + u.range(0, 400 * 86400)
            } else {
                8_210_266_876_799 - u.range(0, 400 * 86400)
            }
        }
        0 => *u.pick(&[0i64, -1, 1, 951782400, 1685232000, MIN_S, MAX_S, 2147483647, 2147483648, -2208988800, 946684799, 946684800]),
        1 => u.range(MIN_S, MAX_S),
        2 => u.range(-100000, 100000) * 86400 + u.range(-1, 1),
        // far outside years 1..9999 but inside chrono's range (≈ ±262000 years)
        _ => u.range(-8_000_000_000_000, 8_000_000_000_000),
    };
    let nanos = *u.pick(&[0u32, 1, 999_999_999, 500_000_000, 123_456_789, 1_000_000, 999_000_000]);
    let off = match u.below(4) {
        0 => 0,
        1 => *u.pick(&[3600, -3600, 19800, -43200, 50400, 60, -60, 86399, -86399]),
        2 => u.range(-56, 56) as i32 * 900,
        _ => u.range(-86399, 86399) as i32,
    };
    V::Ts(secs, nanos, off)
}

#[derive(Clone, Copy)]
pub struct ValOpts {
    pub funcs: bool,
    pub time: bool,
    pub nonfinite: bool,
    pub invalid_utf8_bytes: bool,
}

impl ValOpts {
    pub const ALL: ValOpts = ValOpts { funcs: true, time: true, nonfinite: true, invalid_utf8_bytes: true };
    pub const CORE: ValOpts = ValOpts { funcs: false, time: false, nonfinite: true, invalid_utf8_bytes: true };
}

pub fn gen_key(u: &mut Chooser) -> V {
    match u.below(5) {
        0 => V::Str(u.pick(&["a", "b", "k", "key", "", "1", "true", "é"]).to_string()),
        1 => V::Int(*u.pick(&[0i64, 1, -1, 2, i64::MAX, i64::MIN])),
        2 => V::UInt(*u.pick(&[0u64, 1, 2, u64::MAX, 9223372036854775808])),
        3 => V::Bool(u.flip()),
        _ => V::Str(gen_string(u)),
    }
}

/// any value, every variant (DESIGN §3 "Values")
pub fn gen_value(u: &mut Chooser, depth: usize, o: ValOpts) -> V {
    let kinds: usize = if depth == 0 { 9 } else { 11 };
    let mut k = u.below(kinds + if o.funcs { 1 } else { 0 });
    if k >= kinds {
        k = 100;
    }
    match k {
        0 => V::Int(gen_i64(u)),
        1 => V::Null,
        2 => V::Bool(u.flip()),
        3 => V::UInt(gen_u64(u)),
        4 => {
            let f = gen_f64(u);
            V::Float(F(if !o.nonfinite && !f.is_finite() { 0.5 } else { f }))
        }
        5 => V::Str(gen_string(u)),
        6 => {
            let b = gen_bytes(u);
            if !o.invalid_utf8_bytes && std::str::from_utf8(&b).is_err() {
                V::Bytes(b"ok".to_vec())
            } else {
                V::Bytes(b)
            }
        }
        7 => {
            if o.time {
                gen_dur(u)
            } else {
                V::Int(gen_i64(u))
            }
        }
        8 => {
            if o.time {
                gen_ts(u)
            } else {
                V::Str(gen_string(u))
            }
        }
        9 => {
            let n = u.below(4);
            V::List((0..n).map(|_| gen_value(u, depth - 1, o)).collect())
        }
        10 => {
            let n = u.below(4);
            let mut es: Vec<(V, V)> = vec![];
            for _ in 0..n {
                let k = gen_key(u);
                let v = gen_value(u, depth - 1, o);
                if !es.iter().any(|(k2, _)| crate::model::same(k2, &k)) {
                    es.push((k, v));
                }
            }
            V::Map(es)
        }
        _ => {
            let name = u.pick(&["size", "f", "contains", "g"]).to_string();
            let inner = if u.flip() && depth > 0 { Some(Box::new(gen_value(u, depth - 1, o))) } else { None };
            V::Func(name, inner)
        }
    }
}
