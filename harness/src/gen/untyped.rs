//! Untyped expression generator (C01, C02, C19): anything goes.
