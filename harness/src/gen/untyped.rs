//! Untyped expression generator (C01, C02, C19): anything goes — names, arities and operand
//! kinds are random, so most programs are ill-typed.

use super::{gen_bytes, gen_finite_f64, gen_i64, gen_string, gen_u64};
use crate::chooser::Chooser;
use crate::model::expr::{b, Mac, Op, E};
use crate::model::lit;
use crate::model::{F, V};

pub struct Pool {
    pub vars: Vec<String>,
    pub funcs: Vec<String>,
    pub fields: Vec<String>,
    /// allow struct literals
    pub structs: bool,
    /// allow odd literal spellings through E::Raw
    pub raw_literals: bool,
}

impl Pool {
    pub fn c02() -> Pool {
        let vars = ["i0", "u0", "d0", "s0", "y0", "b0", "n0", "l0", "m0v", "dur0", "ts0", "fn0", "x", "y", "unbound"].iter().map(|s| s.to_string()).collect();
        let mut funcs: Vec<String> = crate::model::eval::BUILTINS.iter().map(|s| s.to_string()).collect();
        funcs.extend(crate::model::eval::HOST_FUNCS.iter().map(|s| s.to_string()));
        funcs.extend(["nosuchfn", "has", "all", "exists", "exists_one", "map", "filter"].iter().map(|s| s.to_string()));
        Pool { vars, funcs, fields: ["a", "b", "k", "size", "f_1", "contains"].iter().map(|s| s.to_string()).collect(), structs: true, raw_literals: true }
    }
}

pub fn gen_literal(u: &mut Chooser, raw: bool) -> E {
    match u.below(if raw { 12 } else { 8 }) {
        0 => E::Lit(V::Int(gen_i64(u))),
        1 => E::Lit(V::Bool(u.flip())),
        2 => E::Lit(V::Null),
        3 => E::Lit(V::UInt(gen_u64(u))),
        4 => E::Lit(V::Float(F(gen_finite_f64(u)))),
        5 => E::Lit(V::Str(gen_string(u))),
        6 => E::Lit(V::Bytes(gen_bytes(u))),
        7 => E::Lit(V::Int(u.range(0, 5))),
        8 => E::Raw(match u.below(8) {
            0 => format!("0x{:X}", gen_u64(u) >> u.below(64)),
            1 => format!("0x{:x}u", gen_u64(u)),
            2 => format!("{}e{}", u.range(0, 99), u.range(-400, 400)),
            3 => format!(".{}", u.range(0, 999)),
            4 => format!("{}U", u.range(0, 99)),
            5 => format!("{}.{}E+{}", u.range(0, 9), u.range(0, 9), u.range(0, 30)),
            6 => "9223372036854775808".to_string(),
            _ => "18446744073709551616u".to_string(),
        }),
        9 => {
            // odd string spellings
            let body: String = gen_string(u).chars().filter(|c| !matches!(c, '\'' | '"' | '\\' | '\n' | '\r')).collect();
            E::Raw(match u.below(6) {
                0 => format!("'{body}'"),
                1 => format!("r'{body}\\n'"),
                2 => format!("'''{body}'''"),
                3 => format!("\"\"\"{body}\n\"\"\""),
                4 => format!("R\"{body}\""),
                _ => format!("'\\u00e9\\x41\\101\\U0001F600{body}'"),
            })
        }
        10 => {
            let body: String = gen_string(u).chars().filter(|c| !matches!(c, '\'' | '"' | '\\' | '\n' | '\r')).collect();
            E::Raw(match u.below(5) {
                0 => format!("b'{body}'"),
                1 => format!("B\"{body}\\xff\\000\""),
                2 => format!("br'{body}\\x'"),
                3 => format!("b'''{body}'''"),
                _ => format!("b'\\n\\t{body}'"),
            })
        }
        _ => E::Raw(lit::str_lit(&gen_string(u))),
    }
}

pub fn gen_untyped(u: &mut Chooser, depth: usize, p: &Pool) -> E {
    if depth == 0 {
        return match u.below(3) {
            0 => gen_literal(u, p.raw_literals),
            1 => E::Var(u.pick(&p.vars).clone()),
            _ => gen_literal(u, false),
        };
    }
    let d = depth - 1;
    let g = |u: &mut Chooser| gen_untyped(u, d, p);
    match u.below(24) {
        0 => gen_literal(u, p.raw_literals),
        1 => E::Var(u.pick(&p.vars).clone()),
        2..=6 => {
            let op = *u.pick(&Op::ALL);
            E::bin(op, g(u), g(u))
        }
        7 => {
            // prefix runs
            let n = 1 + u.below(3);
            let mut e = g(u);
            let neg = u.flip();
            for _ in 0..n {
                e = if neg { E::Neg(b(e)) } else { E::Not(b(e)) };
            }
            e
        }
        8 => E::Cond(b(g(u)), b(g(u)), b(g(u))),
        9 => E::Index(b(g(u)), b(g(u))),
        10 => E::Select(b(g(u)), u.pick(&p.fields).clone()),
        11 => E::Has(b(g(u)), u.pick(&p.fields).clone()),
        12 => {
            let n = u.below(4);
            E::List((0..n).map(|_| g(u)).collect())
        }
        13 => {
            let n = u.below(3);
            E::Map((0..n).map(|_| (g(u), g(u))).collect())
        }
        14 | 15 | 16 => {
            let n = u.below(5);
            E::Call(u.pick(&p.funcs).clone(), None, (0..n).map(|_| g(u)).collect())
        }
        17 | 18 | 19 => {
            let n = u.below(4);
            let r = g(u);
            E::Call(u.pick(&p.funcs).clone(), Some(b(r)), (0..n).map(|_| g(u)).collect())
        }
        20 | 21 | 22 => {
            let m = *u.pick(&[Mac::All, Mac::Exists, Mac::ExistsOne, Mac::ExistsOneCamel, Mac::Map, Mac::Map, Mac::Filter]);
            let range = g(u);
            // the iteration variable: a fresh-looking name, or any name of the pool (which may also name a function)
            let var = if u.flip() { u.pick(&["x", "y", "i0", "s0"]).to_string() } else { u.pick(&p.vars).trim_start_matches('.').to_string() };
            let body = if m == Mac::Map && u.flip() { vec![g(u), g(u)] } else { vec![g(u)] };
            E::Macro(m, b(range), var, body)
        }
        _ => {
            if p.structs {
                let n = u.below(3);
                E::Struct(u.pick(&["T", "a.b.T", ".T", "google.protobuf.Value", "google.protobuf.Int64Value", "google.protobuf.StringValue", "google.protobuf.BoolValue", "google.protobuf.Duration"]).to_string(), (0..n).map(|_| (if u.chance(1, 3) { "value".to_string() } else { u.pick(&p.fields).clone() }, g(u))).collect())
            } else {
                g(u)
            }
        }
    }
}
