//! Token-level view of CEL source (C01): a token alphabet, rendering of expression trees to
//! token lists, and a reference recogniser written from the parser rules of CEL.g4 (DESIGN B.1).
//! The recogniser never sees text, so lexer subtleties cannot make it wrong; token lists are
//! rendered with whitespace between all tokens so the lexer sees exactly these boundaries.

use crate::chooser::Chooser;
use crate::model::expr::E;
use crate::model::lit;
use crate::model::V;
use serde::{Deserialize, Serialize};
use std::collections::HashMap;

#[derive(Clone, Debug, PartialEq, Eq, Hash, Serialize, Deserialize)]
pub enum Tok {
    Ident(String),
    EscIdent(String),
    Int(String),
    Uint(String),
    Float(String),
    Str(String),
    Bytes(String),
    True,
    False,
    Null,
    In,
    /// punctuation / operators, by their text
    P(String),
    /// something no lexer rule accepts on its own (`@`, `;`, single `|`, …)
    Invalid(String),
    /// a lone quote, backslash or backtick: makes the token-level view of the source unreliable
    Quote(String),
}

pub const PUNCT: [&str; 25] = ["==", "!=", "<", "<=", ">=", ">", "&&", "||", "[", "]", "{", "}", "(", ")", ".", ",", "-", "!", "?", ":", "+", "*", "/", "%", "in"];
pub const INVALID: [&str; 12] = ["@", "#", "$", ";", "~", "^", "|", "&", "=", "ä", "\u{1}", "日"];

impl Tok {
    pub fn p(s: &str) -> Tok {
        if s == "in" {
            Tok::In
        } else {
            Tok::P(s.to_string())
        }
    }
    pub fn text(&self) -> String {
        match self {
            Tok::Ident(s) | Tok::EscIdent(s) | Tok::Int(s) | Tok::Uint(s) | Tok::Float(s) | Tok::Str(s) | Tok::Bytes(s) | Tok::P(s) | Tok::Invalid(s) | Tok::Quote(s) => s.clone(),
            Tok::True => "true".into(),
            Tok::False => "false".into(),
            Tok::Null => "null".into(),
            Tok::In => "in".into(),
        }
    }
    fn is(&self, s: &str) -> bool {
        matches!(self, Tok::P(x) if x == s)
    }
}

pub fn render_tokens(ts: &[Tok], seps: &[u8]) -> String {
    let mut s = String::new();
    for (i, t) in ts.iter().enumerate() {
        if i > 0 {
            s.push_str(match seps.get(i).copied().unwrap_or(0) % 6 {
                0 | 1 | 2 => " ",
                3 => "\n",
                4 => "\t ",
                _ => " // c\n",
            });
        }
        s.push_str(&t.text());
    }
    s
}

fn classify_raw(s: &str) -> Tok {
    let first = s.chars().next().unwrap_or(' ');
    let lower = s.to_ascii_lowercase();
    if first == '"' || first == '\'' || ((first == 'r' || first == 'R') && s.len() > 1 && matches!(s.as_bytes()[1], b'"' | b'\'')) {
        Tok::Str(s.to_string())
    } else if first == 'b' || first == 'B' {
        Tok::Bytes(s.to_string())
    } else if lower.starts_with("0x") {
        if lower.ends_with('u') {
            Tok::Uint(s.to_string())
        } else {
            Tok::Int(s.to_string())
        }
    } else if lower.ends_with('u') {
        Tok::Uint(s.to_string())
    } else if lower.contains('.') || lower.contains('e') {
        Tok::Float(s.to_string())
    } else {
        Tok::Int(s.to_string())
    }
}

fn lit_tokens(v: &V, out: &mut Vec<Tok>) {
    match v {
        V::Null => out.push(Tok::Null),
        V::Bool(true) => out.push(Tok::True),
        V::Bool(false) => out.push(Tok::False),
        V::Int(i) => {
            if *i < 0 {
                out.push(Tok::p("("));
                out.push(Tok::p("-"));
                out.push(Tok::Int(i.unsigned_abs().to_string()));
                out.push(Tok::p(")"));
            } else {
                out.push(Tok::Int(i.to_string()));
            }
        }
        V::UInt(u) => out.push(Tok::Uint(format!("{u}u"))),
        V::Float(f) => {
            let s = lit::float_lit(f.0.abs()).unwrap_or_else(|| "0.0".into());
            if f.0.is_sign_negative() {
                out.push(Tok::p("("));
                out.push(Tok::p("-"));
                out.push(Tok::Float(s));
                out.push(Tok::p(")"));
            } else {
                out.push(Tok::Float(s));
            }
        }
        V::Str(s) => out.push(Tok::Str(lit::str_lit(s))),
        V::Bytes(b) => out.push(Tok::Bytes(lit::bytes_lit(b))),
        _ => out.push(Tok::Null),
    }
}

/// fully parenthesised token rendering of an expression tree
pub fn expr_tokens(e: &E, out: &mut Vec<Tok>) {
    let p = Tok::p;
    let list = |xs: &[&E], out: &mut Vec<Tok>| {
        for (i, x) in xs.iter().enumerate() {
            if i > 0 {
                out.push(p(","));
            }
            expr_tokens(x, out);
        }
    };
    match e {
        E::Lit(v) => lit_tokens(v, out),
        E::Var(n) => out.push(Tok::Ident(n.clone())),
        E::Raw(s) => out.push(classify_raw(s)),
        E::Not(a) | E::Neg(a) => {
            out.push(p("("));
            out.push(p(if matches!(e, E::Not(_)) { "!" } else { "-" }));
            // the operand of a prefix operator must be a member expression: parenthesise it
            out.push(p("("));
            expr_tokens(a, out);
            out.push(p(")"));
            out.push(p(")"));
        }
        E::Bin(op, l, r) => {
            out.push(p("("));
            expr_tokens(l, out);
            out.push(p(op.text()));
            expr_tokens(r, out);
            out.push(p(")"));
        }
        E::Cond(c, t, f) => {
            out.push(p("("));
            expr_tokens(c, out);
            out.push(p("?"));
            expr_tokens(t, out);
            out.push(p(":"));
            expr_tokens(f, out);
            out.push(p(")"));
        }
        E::Index(a, i) => {
            expr_tokens(a, out);
            out.push(p("["));
            expr_tokens(i, out);
            out.push(p("]"));
        }
        E::Select(a, f) => {
            expr_tokens(a, out);
            out.push(p("."));
            out.push(Tok::Ident(f.clone()));
        }
        E::Has(a, f) => {
            out.push(Tok::Ident("has".into()));
            out.push(p("("));
            expr_tokens(a, out);
            out.push(p("."));
            out.push(Tok::Ident(f.clone()));
            out.push(p(")"));
        }
        E::List(xs) => {
            out.push(p("["));
            list(&xs.iter().collect::<Vec<_>>(), out);
            out.push(p("]"));
        }
        E::Map(es) => {
            out.push(p("{"));
            for (i, (k, v)) in es.iter().enumerate() {
                if i > 0 {
                    out.push(p(","));
                }
                expr_tokens(k, out);
                out.push(p(":"));
                expr_tokens(v, out);
            }
            out.push(p("}"));
        }
        E::Call(n, r, args) => {
            if let Some(r) = r {
                expr_tokens(r, out);
                out.push(p("."));
            }
            out.push(Tok::Ident(n.clone()));
            out.push(p("("));
            list(&args.iter().collect::<Vec<_>>(), out);
            out.push(p(")"));
        }
        E::Macro(m, r, v, body) => {
            expr_tokens(r, out);
            out.push(p("."));
            out.push(Tok::Ident(m.name().into()));
            out.push(p("("));
            out.push(Tok::Ident(v.clone()));
            for b in body {
                out.push(p(","));
                expr_tokens(b, out);
            }
            out.push(p(")"));
        }
        E::Struct(n, fs) => {
            let mut first = true;
            for part in n.split('.') {
                if part.is_empty() {
                    out.push(p("."));
                    first = true;
                    continue;
                }
                if !first {
                    out.push(p("."));
                }
                out.push(Tok::Ident(part.to_string()));
                first = false;
            }
            out.push(p("{"));
            for (i, (k, v)) in fs.iter().enumerate() {
                if i > 0 {
                    out.push(p(","));
                }
                out.push(Tok::Ident(k.clone()));
                out.push(p(":"));
                expr_tokens(v, out);
            }
            out.push(p("}"));
        }
    }
}

pub fn gen_token(u: &mut Chooser) -> Tok {
    match u.below(14) {
        0 => Tok::Ident(u.pick(&["a", "b", "x", "f", "size", "has", "all", "map", "_y", "T"]).to_string()),
        1 => Tok::Int(u.pick(&["0", "1", "42", "0x1F", "007", "9223372036854775807", "9223372036854775808"]).to_string()),
        2 => Tok::p(*u.pick(&PUNCT)),
        3 => Tok::p(*u.pick(&["(", ")", "[", "]", "{", "}", ".", ","])),
        4 => Tok::p(*u.pick(&["+", "-", "*", "/", "%", "!", "?", ":", "&&", "||"])),
        5 => Tok::Str(u.pick(&["'s'", "\"d\"", "''", "r'\\n'", "'''t'''", "\"\"\"u\"\"\"", "'\\x41\\n'"]).to_string()),
        6 => Tok::Uint(u.pick(&["0u", "1U", "0xffu", "18446744073709551615u"]).to_string()),
        7 => Tok::Float(u.pick(&["1.0", ".5", "1e3", "2.5E-3", "1e999"]).to_string()),
        8 => u.pick(&[Tok::True, Tok::False, Tok::Null, Tok::In]).clone(),
        9 => Tok::Bytes(u.pick(&["b'x'", "B\"y\"", "b'\\xff'", "br'z'"]).to_string()),
        10 => Tok::EscIdent(u.pick(&["`a.b`", "`x-y`", "`a b`"]).to_string()),
        11 => Tok::Invalid(u.pick(&INVALID).to_string()),
        12 => Tok::p(*u.pick(&["==", "!=", "<", "<=", ">=", ">", "in"])),
        _ => {
            if u.chance(1, 4) {
                Tok::Quote(u.pick(&["'", "\"", "\\", "`", "'''", "r'"]).to_string())
            } else {
                Tok::Ident(u.pick(&["a", "b", "c"]).to_string())
            }
        }
    }
}

/// all "plain" tokens, one of each kind/text, for the exhaustive one- and two-token sweeps
pub fn token_alphabet() -> Vec<Tok> {
    let mut v: Vec<Tok> = PUNCT.iter().map(|s| Tok::p(s)).collect();
    v.extend([Tok::Ident("a".into()), Tok::Ident("has".into()), Tok::Ident("map".into()), Tok::EscIdent("`a.b`".into())]);
    v.extend([Tok::Int("1".into()), Tok::Int("0x1F".into()), Tok::Int("9223372036854775808".into()), Tok::Uint("1u".into()), Tok::Float("1.5".into()), Tok::Float(".5".into())]);
    v.extend([Tok::Str("'s'".into()), Tok::Str("r\"\\d\"".into()), Tok::Str("'''t'''".into()), Tok::Bytes("b'x'".into()), Tok::True, Tok::False, Tok::Null]);
    v.extend(INVALID.iter().map(|s| Tok::Invalid(s.to_string())));
    v.extend([Tok::Quote("'".into()), Tok::Quote("\"".into()), Tok::Quote("\\".into()), Tok::Quote("`".into())]);
    v
}

// ------------------------------------------------------------------------------------------------
// reference recogniser

#[derive(Clone, Copy, PartialEq, Eq, Hash)]
enum Rule {
    Expr,
    CondOr,
    CondAnd,
    Relation,
    Calc,
    Unary,
    Member,
    Primary,
}

pub struct Recogniser<'a> {
    t: &'a [Tok],
    memo: HashMap<(Rule, usize), Vec<usize>>,
}

fn dedup(mut v: Vec<usize>) -> Vec<usize> {
    v.sort_unstable();
    v.dedup();
    v
}

impl<'a> Recogniser<'a> {
    pub fn new(t: &'a [Tok]) -> Self {
        Recogniser { t, memo: HashMap::new() }
    }
    /// does the whole token list derive `start : expr EOF`?
    pub fn accepts(&mut self) -> bool {
        if self.t.iter().any(|t| matches!(t, Tok::Invalid(_) | Tok::Quote(_))) {
            return false;
        }
        let n = self.t.len();
        self.parse(Rule::Expr, 0).contains(&n)
    }
    fn is(&self, i: usize, s: &str) -> bool {
        self.t.get(i).map(|t| t.is(s)).unwrap_or(false)
    }
    fn ident(&self, i: usize) -> bool {
        matches!(self.t.get(i), Some(Tok::Ident(_)))
    }
    fn esc_ident(&self, i: usize) -> bool {
        matches!(self.t.get(i), Some(Tok::Ident(_)) | Some(Tok::EscIdent(_)))
    }
    fn parse(&mut self, r: Rule, i: usize) -> Vec<usize> {
        if let Some(v) = self.memo.get(&(r, i)) {
            return v.clone();
        }
        // guard against left recursion by construction: every rule consumes before recursing into itself
        let out = match r {
            Rule::Expr => {
                let mut out = vec![];
                for j in self.parse(Rule::CondOr, i) {
                    out.push(j);
                    if self.is(j, "?") {
                        for k in self.parse(Rule::CondOr, j + 1) {
                            if self.is(k, ":") {
                                out.extend(self.parse(Rule::Expr, k + 1));
                            }
                        }
                    }
                }
                out
            }
            Rule::CondOr => self.chain(Rule::CondAnd, i, &["||"]),
            Rule::CondAnd => self.chain(Rule::Relation, i, &["&&"]),
            Rule::Relation => self.chain(Rule::Calc, i, &["<", "<=", ">=", ">", "==", "!=", "in"]),
            Rule::Calc => self.chain(Rule::Unary, i, &["*", "/", "%", "+", "-"]),
            Rule::Unary => {
                let mut out = self.parse(Rule::Member, i);
                for op in ["!", "-"] {
                    let mut j = i;
                    while self.is(j, op) {
                        j += 1;
                        out.extend(self.parse(Rule::Member, j));
                    }
                }
                out
            }
            Rule::Member => {
                let mut frontier = self.parse(Rule::Primary, i);
                let mut all = frontier.clone();
                while !frontier.is_empty() {
                    let mut next = vec![];
                    for j in frontier {
                        if self.is(j, ".") {
                            // select: '.' '?'? escapeIdent
                            let k = if self.is(j + 1, "?") { j + 2 } else { j + 1 };
                            if self.esc_ident(k) {
                                next.push(k + 1);
                            }
                            // member call: '.' IDENT '(' exprList? ')'
                            if self.ident(j + 1) && self.is(j + 2, "(") {
                                next.extend(self.args(j + 3, ")"));
                            }
                        }
                        if self.is(j, "[") {
                            let k = if self.is(j + 1, "?") { j + 2 } else { j + 1 };
                            for m in self.parse(Rule::Expr, k) {
                                if self.is(m, "]") {
                                    next.push(m + 1);
                                }
                            }
                            // `[?` could also be … no: '?' cannot start an expression
                        }
                    }
                    let next = dedup(next);
                    frontier = next.iter().copied().filter(|x| !all.contains(x)).collect();
                    all.extend(frontier.iter().copied());
                }
                all
            }
            Rule::Primary => {
                let mut out = vec![];
                let t = self.t.get(i);
                // literal
                match t {
                    Some(Tok::Int(_)) | Some(Tok::Uint(_)) | Some(Tok::Float(_)) | Some(Tok::Str(_)) | Some(Tok::Bytes(_)) | Some(Tok::True) | Some(Tok::False) | Some(Tok::Null) => out.push(i + 1),
                    _ => {}
                }
                if self.is(i, "-") && matches!(self.t.get(i + 1), Some(Tok::Int(_)) | Some(Tok::Float(_))) {
                    out.push(i + 2);
                }
                // '.'? IDENT  |  '.'? IDENT '(' exprList? ')'  |  '.'? IDENT ('.' IDENT)* '{' fields? ','? '}'
                let s = if self.is(i, ".") { i + 1 } else { i };
                if self.ident(s) {
                    out.push(s + 1);
                    if self.is(s + 1, "(") {
                        out.extend(self.args(s + 2, ")"));
                    }
                    let mut j = s + 1;
                    loop {
                        if self.is(j, "{") {
                            out.extend(self.fields(j + 1));
                        }
                        if self.is(j, ".") && self.ident(j + 1) {
                            j += 2;
                        } else {
                            break;
                        }
                    }
                }
                // '(' expr ')'
                if self.is(i, "(") {
                    for j in self.parse(Rule::Expr, i + 1) {
                        if self.is(j, ")") {
                            out.push(j + 1);
                        }
                    }
                }
                // '[' listInit? ','? ']'
                if self.is(i, "[") {
                    let mut ends = vec![i + 1];
                    ends.extend(self.opt_expr_list(i + 1));
                    for j in dedup(ends) {
                        let k = if self.is(j, ",") { j + 1 } else { j };
                        for m in [j, k] {
                            if self.is(m, "]") {
                                out.push(m + 1);
                            }
                        }
                    }
                }
                // '{' mapInit? ','? '}'
                if self.is(i, "{") {
                    let mut ends = vec![i + 1];
                    ends.extend(self.map_init(i + 1));
                    for j in dedup(ends) {
                        let k = if self.is(j, ",") { j + 1 } else { j };
                        for m in [j, k] {
                            if self.is(m, "}") {
                                out.push(m + 1);
                            }
                        }
                    }
                }
                out
            }
        };
        let out = dedup(out);
        self.memo.insert((r, i), out.clone());
        out
    }
    /// sub (op sub)*
    fn chain(&mut self, sub: Rule, i: usize, ops: &[&str]) -> Vec<usize> {
        let mut frontier = self.parse(sub, i);
        let mut all = frontier.clone();
        while !frontier.is_empty() {
            let mut next = vec![];
            for j in frontier {
                let is_op = match self.t.get(j) {
                    Some(Tok::In) => ops.contains(&"in"),
                    Some(Tok::P(s)) => ops.contains(&s.as_str()),
                    _ => false,
                };
                if is_op {
                    next.extend(self.parse(sub, j + 1));
                }
            }
            let next = dedup(next);
            frontier = next.iter().copied().filter(|x| !all.contains(x)).collect();
            all.extend(frontier.iter().copied());
        }
        all
    }
    /// exprList? followed by `close`; returns positions after `close`
    fn args(&mut self, i: usize, close: &str) -> Vec<usize> {
        let mut out = vec![];
        if self.is(i, close) {
            out.push(i + 1);
        }
        let mut frontier = self.parse(Rule::Expr, i);
        let mut seen: Vec<usize> = vec![];
        while !frontier.is_empty() {
            let mut next = vec![];
            for j in frontier {
                if seen.contains(&j) {
                    continue;
                }
                seen.push(j);
                if self.is(j, close) {
                    out.push(j + 1);
                }
                if self.is(j, ",") {
                    next.extend(self.parse(Rule::Expr, j + 1));
                }
            }
            frontier = dedup(next);
        }
        out
    }
    /// optExpr (',' optExpr)* ; returns end positions
    fn opt_expr_list(&mut self, i: usize) -> Vec<usize> {
        let mut out = vec![];
        let start = |s: &mut Self, i: usize| {
            let k = if s.is(i, "?") { i + 1 } else { i };
            s.parse(Rule::Expr, k)
        };
        let mut frontier = start(self, i);
        while !frontier.is_empty() {
            let mut next = vec![];
            for j in frontier {
                if out.contains(&j) {
                    continue;
                }
                out.push(j);
                if self.is(j, ",") {
                    next.extend(start(self, j + 1));
                }
            }
            frontier = dedup(next);
        }
        out
    }
    /// optExpr ':' expr (',' optExpr ':' expr)*
    fn map_init(&mut self, i: usize) -> Vec<usize> {
        let mut out = vec![];
        let entry = |s: &mut Self, i: usize| {
            let k = if s.is(i, "?") { i + 1 } else { i };
            let mut ends = vec![];
            for j in s.parse(Rule::Expr, k) {
                if s.is(j, ":") {
                    ends.extend(s.parse(Rule::Expr, j + 1));
                }
            }
            dedup(ends)
        };
        let mut frontier = entry(self, i);
        while !frontier.is_empty() {
            let mut next = vec![];
            for j in frontier {
                if out.contains(&j) {
                    continue;
                }
                out.push(j);
                if self.is(j, ",") {
                    next.extend(entry(self, j + 1));
                }
            }
            frontier = dedup(next);
        }
        out
    }
    /// after '{' of a message: field_initializer_list? ','? '}' ; returns positions after '}'
    fn fields(&mut self, i: usize) -> Vec<usize> {
        let entry = |s: &mut Self, i: usize| {
            let k = if s.is(i, "?") { i + 1 } else { i };
            if s.esc_ident(k) && s.is(k + 1, ":") {
                s.parse(Rule::Expr, k + 2)
            } else {
                vec![]
            }
        };
        let mut ends = vec![i];
        let mut frontier = entry(self, i);
        let mut seen = vec![];
        while !frontier.is_empty() {
            let mut next = vec![];
            for j in frontier {
                if seen.contains(&j) {
                    continue;
                }
                seen.push(j);
                ends.push(j);
                if self.is(j, ",") {
                    next.extend(entry(self, j + 1));
                }
            }
            frontier = dedup(next);
        }
        let mut out = vec![];
        for j in dedup(ends) {
            let k = if self.is(j, ",") { j + 1 } else { j };
            for m in [j, k] {
                if self.is(m, "}") {
                    out.push(m + 1);
                }
            }
        }
        out
    }
}

/// cheap necessary conditions that hold for every CEL expression (cross-check of the recogniser)
pub fn necessary_conditions(ts: &[Tok]) -> Result<(), &'static str> {
    if ts.is_empty() {
        return Err("empty token list");
    }
    if ts.iter().any(|t| matches!(t, Tok::Invalid(_))) {
        return Err("contains a character no token rule accepts");
    }
    let mut stack: Vec<&str> = vec![];
    for t in ts {
        if let Tok::P(s) = t {
            match s.as_str() {
                "(" | "[" | "{" => stack.push(s),
                ")" | "]" | "}" => {
                    let want = match s.as_str() {
                        ")" => "(",
                        "]" => "[",
                        _ => "{",
                    };
                    if stack.pop() != Some(want) {
                        return Err("unbalanced or improperly nested bracket");
                    }
                }
                _ => {}
            }
        }
    }
    if !stack.is_empty() {
        return Err("unclosed bracket");
    }
    let last = ts.last().unwrap();
    let closes = match last {
        Tok::P(s) => matches!(s.as_str(), ")" | "]" | "}"),
        Tok::In => false,
        _ => true,
    };
    if !closes {
        return Err("last token does not close an operand (dangling operator)");
    }
    let first_bad = match &ts[0] {
        Tok::P(s) => !matches!(s.as_str(), "(" | "[" | "{" | "-" | "!" | "."),
        Tok::In => true,
        _ => false,
    };
    if first_bad {
        return Err("first token cannot start an expression");
    }
    // two adjacent operands (literal/identifier directly followed by literal/identifier)
    let operand = |t: &Tok| !matches!(t, Tok::P(_) | Tok::In);
    for w in ts.windows(2) {
        if operand(&w[0]) && operand(&w[1]) {
            return Err("two adjacent operands");
        }
    }
    Ok(())
}

pub fn max_bracket_depth(ts: &[Tok]) -> usize {
    let (mut d, mut m) = (0usize, 0usize);
    for t in ts {
        if let Tok::P(s) = t {
            match s.as_str() {
                "(" | "[" | "{" => {
                    d += 1;
                    m = m.max(d);
                }
                ")" | "]" | "}" => d = d.saturating_sub(1),
                _ => {}
            }
        }
    }
    m
}
