//! Type-directed generator of well-typed programs over the core fragment (C03, C06, C10, C11).

use super::{gen_bytes, gen_finite_f64, gen_i64, gen_string, gen_u64};
use crate::chooser::Chooser;
use crate::model::expr::{b, Mac, Op, E};
use crate::model::{F, V};
use serde::{Deserialize, Serialize};

#[derive(Clone, Debug, PartialEq, Serialize, Deserialize)]
pub enum T {
    Bool,
    Int,
    UInt,
    Dbl,
    Str,
    Bytes,
    Null,
    List(Box<T>),
    Map(Box<T>, Box<T>),
}

pub fn scalar_types() -> Vec<T> {
    vec![T::Bool, T::Int, T::UInt, T::Dbl, T::Str, T::Bytes, T::Null]
}

pub fn gen_type(u: &mut Chooser, depth: usize) -> T {
    let n = if depth == 0 { 6 } else { 8 };
    match u.below(n) {
        0 => T::Int,
        1 => T::Bool,
        2 => T::Str,
        3 => T::UInt,
        4 => T::Dbl,
        5 => T::Bytes,
        6 => T::List(Box::new(gen_type(u, depth - 1))),
        _ => T::Map(Box::new(gen_key_type(u)), Box::new(gen_type(u, depth - 1))),
    }
}

pub fn gen_key_type(u: &mut Chooser) -> T {
    match u.below(4) {
        0 => T::Str,
        1 => T::Int,
        2 => T::UInt,
        _ => T::Bool,
    }
}

/// identifier-like strings that are not names of registered functions (so `m.k` is never a method)
pub const FIELD_NAMES: [&str; 6] = ["a", "b", "k", "key", "f_1", "x9"];

pub fn gen_val_of(u: &mut Chooser, t: &T, depth: usize) -> V {
    match t {
        T::Bool => V::Bool(u.flip()),
        T::Int => V::Int(gen_i64(u)),
        T::UInt => V::UInt(gen_u64(u)),
        T::Dbl => V::Float(F(super::gen_f64(u))),
        T::Str => V::Str(gen_string(u)),
        T::Bytes => V::Bytes(gen_bytes(u)),
        T::Null => V::Null,
        T::List(et) => {
            let n = if depth == 0 { 0 } else { u.below(5) };
            V::List((0..n).map(|_| gen_val_of(u, et, depth.saturating_sub(1))).collect())
        }
        T::Map(kt, vt) => {
            let n = if depth == 0 { 0 } else { u.below(4) };
            let mut es: Vec<(V, V)> = vec![];
            for _ in 0..n {
                let k = gen_map_key(u, kt);
                let v = gen_val_of(u, vt, depth.saturating_sub(1));
                // no duplicate keys and no int/uint twins (the latter are outside what is asserted)
                let clash = es.iter().any(|(k2, _)| crate::model::same(k2, &k) || (crate::model::eval::is_num(k2) && crate::model::eval::is_num(&k) && crate::model::eval::num_cmp(k2, &k).unwrap() == Some(std::cmp::Ordering::Equal)));
                if !clash {
                    es.push((k, v));
                }
            }
            V::Map(es)
        }
    }
}

pub fn gen_map_key(u: &mut Chooser, kt: &T) -> V {
    match kt {
        T::Str => V::Str(u.pick(&FIELD_NAMES).to_string()),
        T::Int => V::Int(*u.pick(&[0i64, 1, 2, -1, 7, i64::MAX, i64::MIN])),
        T::UInt => V::UInt(*u.pick(&[0u64, 1, 2, 7, u64::MAX, 1 << 63])),
        _ => V::Bool(u.flip()),
    }
}

/// the key expression of a lookup (`m[k]`, `k in m`, `m.contains(k)`): usually any expression of the map's key
/// type; for integer keys one in four is a literal of either integer type from the pool the stored keys are
/// drawn from, so that numerically equal int / uint keys (which are the same key) and keys whose 64-bit
/// patterns merely coincide (-1 / 2^64-1, i64::MIN / 2^63: different keys) are both asked about
pub fn gen_key_query(u: &mut Chooser, kt: &T, env: &mut Env, d: usize) -> E {
    if matches!(kt, T::Int | T::UInt) && u.chance(1, 4) {
        let other = if *kt == T::Int { T::UInt } else { T::Int };
        let t = if u.flip() { other } else { kt.clone() };
        return E::Lit(gen_map_key(u, &t));
    }
    gen_e(u, kt, env, d)
}

#[derive(Clone, Debug, Serialize, Deserialize)]
pub struct Var {
    pub name: String,
    pub ty: T,
    pub val: V,
}

/// a generated context: one or two variables of each interesting type
pub fn gen_ctx(u: &mut Chooser) -> Vec<Var> {
    let specs: Vec<(&str, T)> = vec![
        ("b0", T::Bool),
        ("i0", T::Int),
        ("i1", T::Int),
        ("u0", T::UInt),
        ("d0", T::Dbl),
        ("s0", T::Str),
        ("s1", T::Str),
        ("y0", T::Bytes),
        ("li", T::List(Box::new(T::Int))),
        ("ls", T::List(Box::new(T::Str))),
        ("lu", T::List(Box::new(T::UInt))),
        ("ll", T::List(Box::new(T::List(Box::new(T::Int))))),
        ("ms", T::Map(Box::new(T::Str), Box::new(T::Int))),
        ("mi", T::Map(Box::new(T::Int), Box::new(T::Str))),
        ("mu", T::Map(Box::new(T::UInt), Box::new(T::Bool))),
        ("n0", T::Null),
    ];
    specs.into_iter().map(|(n, t)| Var { name: n.to_string(), val: gen_val_of(u, &t, 2), ty: t }).collect()
}

pub struct Env {
    /// visible variables: (name, type); innermost last
    pub vars: Vec<(String, T)>,
    /// allow logging host calls `t(id, e)` around subterms
    pub logged: bool,
    /// also wrap subterms in host calls of every shape (C07)
    pub host_calls: bool,
    pub next_id: i64,
    /// names available as macro iteration variables
    pub binders: Vec<&'static str>,
}

impl Env {
    pub fn new(ctx: &[Var]) -> Env {
        Env { vars: ctx.iter().map(|v| (v.name.clone(), v.ty.clone())).collect(), logged: false, host_calls: false, next_id: 0, binders: vec!["x", "y", "z"] }
    }
    fn of_type(&self, t: &T) -> Vec<String> {
        // innermost binding of a name decides its type
        let mut seen: Vec<&str> = vec![];
        let mut out = vec![];
        for (n, ty) in self.vars.iter().rev() {
            if seen.contains(&n.as_str()) {
                continue;
            }
            seen.push(n);
            if ty == t {
                out.push(n.clone());
            }
        }
        out
    }
}

fn gen_lit(u: &mut Chooser, t: &T) -> E {
    match t {
        T::Dbl => E::Lit(V::Float(F(gen_finite_f64(u)))),
        T::List(et) => {
            let n = u.below(4);
            E::List((0..n).map(|_| gen_lit(u, et)).collect())
        }
        T::Map(kt, vt) => {
            let n = u.below(3);
            let mut keys: Vec<V> = vec![];
            let mut es = vec![];
            for _ in 0..n {
                let k = gen_map_key(u, kt);
                let clash = keys.iter().any(|k2| crate::model::same(k2, &k) || (crate::model::eval::is_num(k2) && crate::model::eval::num_cmp(k2, &k).unwrap() == Some(std::cmp::Ordering::Equal)));
                if clash {
                    continue;
                }
                keys.push(k.clone());
                es.push((E::Lit(k), gen_lit(u, vt)));
            }
            E::Map(es)
        }
        _ => E::Lit(gen_val_of(u, t, 1)),
    }
}

fn leaf(u: &mut Chooser, t: &T, env: &mut Env) -> E {
    let vars = env.of_type(t);
    if !vars.is_empty() && u.chance(1, 2) {
        E::Var(u.pick(&vars).clone())
    } else {
        gen_lit(u, t)
    }
}

fn wrap_log(e: E, env: &mut Env, u: &mut Chooser) -> E {
    if !env.logged || !u.chance(2, 5) {
        return e;
    }
    let mut side = |env: &mut Env, u: &mut Chooser| -> E {
        // a small logged side argument
        env.next_id += 1;
        let id = env.next_id;
        let t = simple_type(u);
        E::call("t", vec![E::Lit(V::Int(id)), leaf(u, &t, env)])
    };
    match u.below(if env.host_calls { 18 } else { 1 }) {
        14 => {
            // receiver-style call of a variadic function: the receiver is evaluated once and is not an argument
            let a = side(env, u);
            let f = *u.pick(&["va", "max", "min"]);
            E::Index(b(E::List(vec![e, E::mcall(a, f, vec![])])), b(E::Lit(V::Int(0))))
        }
        15 => {
            let (a, c) = (side(env, u), side(env, u));
            let f = *u.pick(&["va", "max", "min"]);
            E::Index(b(E::List(vec![e, E::mcall(a, f, vec![c])])), b(E::Lit(V::Int(0))))
        }
        16 => {
            // receiver-style call of a positional host function: receiver first, then the arguments
            let a = side(env, u);
            E::mcall(a, "h1", vec![e])
        }
        17 => {
            let (a, c) = (side(env, u), side(env, u));
            E::mcall(a, "h2", vec![e, c])
        }
        0 | 1 | 2 => {
            env.next_id += 1;
            E::call("t", vec![E::Lit(V::Int(env.next_id)), e])
        }
        3 => E::call("h1", vec![e]),
        4 => {
            let a = side(env, u);
            E::call("h2", vec![e, a])
        }
        5 => {
            let (a, c) = (side(env, u), side(env, u));
            E::call("h3", vec![e, a, c])
        }
        6 => {
            let (a, c, d) = (side(env, u), side(env, u), side(env, u));
            E::call("h4", vec![e, a, c, d])
        }
        7 => {
            if u.flip() {
                E::mcall(e, "m0", vec![])
            } else {
                E::call("m0", vec![e])
            }
        }
        8 => {
            let a = side(env, u);
            if u.flip() {
                E::mcall(e, "m1", vec![a])
            } else {
                E::call("m1", vec![e, a])
            }
        }
        9 => {
            let (a, c) = (side(env, u), side(env, u));
            if u.flip() {
                E::mcall(e, "m2", vec![a, c])
            } else {
                E::call("m2", vec![e, a, c])
            }
        }
        10 => {
            let (a, c, d) = (side(env, u), side(env, u), side(env, u));
            if u.flip() {
                E::mcall(e, "m3", vec![a, c, d])
            } else {
                E::call("m3", vec![e, a, c, d])
            }
        }
        11 => {
            // va(e, ...)[0]
            let n = u.below(4);
            let mut args = vec![e];
            for _ in 0..n {
                args.push(side(env, u));
            }
            E::Index(b(E::call("va", args)), b(E::Lit(V::Int(0))))
        }
        12 => {
            // occasionally a missing argument: h2 with one argument fails after evaluating it
            if u.chance(1, 6) {
                E::call("h2", vec![e])
            } else {
                E::call("h1", vec![e])
            }
        }
        _ => {
            // [e, side][0]: list elements in source order
            let a = side(env, u);
            E::Index(b(E::List(vec![e, a])), b(E::Lit(V::Int(0))))
        }
    }
}

fn num_type(u: &mut Chooser) -> T {
    match u.below(3) {
        0 => T::Int,
        1 => T::UInt,
        _ => T::Dbl,
    }
}

fn simple_type(u: &mut Chooser) -> T {
    match u.below(5) {
        0 => T::Int,
        1 => T::Str,
        2 => T::UInt,
        3 => T::Bool,
        _ => T::Dbl,
    }
}

/// an expression that raises an error of a chosen class when evaluated
pub fn gen_raiser(u: &mut Chooser, t: &T) -> E {
    let int_err = match u.below(3) {
        0 => E::bin(Op::Div, E::Lit(V::Int(1)), E::Lit(V::Int(0))),
        1 => E::bin(Op::Add, E::Lit(V::Int(i64::MAX)), E::Lit(V::Int(1))),
        _ => E::bin(Op::Rem, E::Lit(V::Int(5)), E::Lit(V::Int(0))),
    };
    // arithmetic over operand types that have no such operator (mixing int and uint is an error, not a coercion)
    if u.chance(1, 4) {
        match t {
            T::Int => return E::bin(*u.pick(&[Op::Add, Op::Sub, Op::Mul, Op::Div, Op::Rem]), E::Lit(V::Int(u.range(1, 9) as i64)), E::Lit(V::UInt(u.range(1, 9) as u64))),
            T::UInt => return E::bin(*u.pick(&[Op::Add, Op::Mul]), E::Lit(V::UInt(1)), E::Lit(V::Int(2))),
            T::List(_) => return E::bin(Op::Add, E::List(vec![]), E::Map(vec![])),
            T::Str => return E::bin(Op::Add, E::Lit(V::s("a")), E::Lit(V::Int(1))),
            _ => {}
        }
    }
    match t {
        T::Int => int_err,
        T::Bool => E::bin(Op::Gt, int_err, E::Lit(V::Int(0))),
        T::UInt => E::bin(Op::Sub, E::Lit(V::UInt(0)), E::Lit(V::UInt(1))),
        _ => match u.below(2) {
            0 => E::Select(b(E::Map(vec![])), "k".into()),
            _ => E::Var("undeclared_u".into()),
        },
    }
}

/// generate a well-typed expression of type `t`
pub fn gen_e(u: &mut Chooser, t: &T, env: &mut Env, depth: usize) -> E {
    if depth == 0 {
        return leaf(u, t, env);
    }
    let d = depth - 1;
    let e = match t {
        T::Bool => match u.below(22) {
            0 | 1 => leaf(u, t, env),
            2 => E::Not(b(gen_e(u, &T::Bool, env, d))),
            3 | 4 => E::bin(Op::And, gen_e(u, &T::Bool, env, d), gen_e(u, &T::Bool, env, d)),
            5 | 6 => E::bin(Op::Or, gen_e(u, &T::Bool, env, d), gen_e(u, &T::Bool, env, d)),
            7 => E::Cond(b(gen_e(u, &T::Bool, env, d)), b(gen_e(u, &T::Bool, env, d)), b(gen_e(u, &T::Bool, env, d))),
            8 | 9 => {
                // ordering relation over numbers (possibly of different types) or strings
                let op = *u.pick(&[Op::Lt, Op::Le, Op::Gt, Op::Ge]);
                if u.chance(1, 4) {
                    E::bin(op, gen_e(u, &T::Str, env, d), gen_e(u, &T::Str, env, d))
                } else {
                    let (a, c) = (num_type(u), num_type(u));
                    E::bin(op, gen_e(u, &a, env, d), gen_e(u, &c, env, d))
                }
            }
            10 | 11 => {
                let op = *u.pick(&[Op::Eq, Op::Ne]);
                let ty = match u.below(4) {
                    0 => gen_type(u, 1),
                    1 => {
                        let (a, c) = (num_type(u), num_type(u));
                        return wrap_log(E::bin(op, gen_e(u, &a, env, d), gen_e(u, &c, env, d)), env, u);
                    }
                    _ => simple_type(u),
                };
                E::bin(op, gen_e(u, &ty, env, d), gen_e(u, &ty, env, d))
            }
            12 => {
                let et = simple_type(u);
                E::bin(Op::In, gen_e(u, &et, env, d), gen_e(u, &T::List(Box::new(et.clone())), env, d))
            }
            13 => {
                let kt = gen_key_type(u);
                let vt = simple_type(u);
                E::bin(Op::In, gen_key_query(u, &kt, env, d), gen_e(u, &T::Map(Box::new(kt.clone()), Box::new(vt)), env, d))
            }
            14 => {
                let vt = simple_type(u);
                // has() is a pure presence test: a field named like a registered function is simply absent
                let f = if u.chance(1, 4) { u.pick(&["size", "contains", "max", "string", "int"]).to_string() } else { u.pick(&FIELD_NAMES).to_string() };
                E::Has(b(gen_e(u, &T::Map(Box::new(T::Str), Box::new(vt)), env, d)), f)
            }
            15 => {
                let f = *u.pick(&["contains", "startsWith", "endsWith"]);
                let (r, a) = (gen_e(u, &T::Str, env, d), gen_e(u, &T::Str, env, d));
                if u.flip() {
                    E::mcall(r, f, vec![a])
                } else {
                    E::call(f, vec![r, a])
                }
            }
            16 => {
                let pat = format!("{}{}{}", if u.flip() { "^" } else { "" }, u.pick(&["a", "ab", "b", "", "abc", "z"]), if u.flip() { "$" } else { "" });
                E::mcall(gen_e(u, &T::Str, env, d), "matches", vec![E::Lit(V::Str(pat))])
            }
            17 | 18 | 19 => {
                let m = *u.pick(&[Mac::All, Mac::Exists, Mac::ExistsOne, Mac::ExistsOneCamel]);
                let et = if u.chance(1, 5) { gen_key_type(u) } else { simple_type(u) };
                // one in five ranges over the keys of a map
                let range = if u.chance(1, 5) {
                    let kt = gen_key_type(u);
                    let vt = simple_type(u);
                    let r = gen_e(u, &T::Map(Box::new(kt.clone()), Box::new(vt)), env, d);
                    let var = u.pick(&env.binders).to_string();
                    env.vars.push((var.clone(), kt));
                    let body = gen_e(u, &T::Bool, env, d);
                    env.vars.pop();
                    return wrap_log(E::Macro(m, b(r), var, vec![body]), env, u);
                } else {
                    gen_e(u, &T::List(Box::new(et.clone())), env, d)
                };
                let var = u.pick(&env.binders).to_string();
                env.vars.push((var.clone(), et));
                let body = gen_e(u, &T::Bool, env, d);
                env.vars.pop();
                E::Macro(m, b(range), var, vec![body])
            }
            20 => {
                let et = simple_type(u);
                let l = gen_e(u, &T::List(Box::new(et.clone())), env, d);
                let x = gen_e(u, &et, env, d);
                if u.flip() {
                    E::mcall(l, "contains", vec![x])
                } else {
                    E::call("contains", vec![l, x])
                }
            }
            _ => {
                let kt = gen_key_type(u);
                let vt = simple_type(u);
                let m = gen_e(u, &T::Map(Box::new(kt.clone()), Box::new(vt)), env, d);
                E::mcall(m, "contains", vec![gen_key_query(u, &kt, env, d)])
            }
        },
        T::Int | T::UInt | T::Dbl => match u.below(16) {
            0 | 1 => leaf(u, t, env),
            2..=6 => {
                let ops: &[Op] = if *t == T::Dbl { &[Op::Add, Op::Sub, Op::Mul, Op::Div] } else { &Op::ARITH };
                E::bin(*u.pick(ops), gen_e(u, t, env, d), gen_e(u, t, env, d))
            }
            7 => {
                if *t == T::UInt {
                    leaf(u, t, env)
                } else {
                    E::Neg(b(gen_e(u, t, env, d)))
                }
            }
            8 => E::Cond(b(gen_e(u, &T::Bool, env, d)), b(gen_e(u, t, env, d)), b(gen_e(u, t, env, d))),
            9 => {
                if *t == T::Int {
                    let st = match u.below(4) {
                        0 => T::Str,
                        1 => T::Bytes,
                        2 => T::List(Box::new(simple_type(u))),
                        _ => T::Map(Box::new(gen_key_type(u)), Box::new(simple_type(u))),
                    };
                    let x = gen_e(u, &st, env, d);
                    if u.flip() {
                        E::mcall(x, "size", vec![])
                    } else {
                        E::call("size", vec![x])
                    }
                } else {
                    leaf(u, t, env)
                }
            }
            10 | 11 => {
                // conversion from another numeric type (or a numeric string for int/uint)
                let f = match t {
                    T::Int => "int",
                    T::UInt => "uint",
                    _ => "double",
                };
                let src = if *t != T::Dbl && u.chance(1, 5) {
                    E::Lit(V::Str(match u.below(3) {
                        0 => gen_u64(u).to_string(),
                        1 => (gen_u64(u) % 1000).to_string(),
                        _ => gen_string(u),
                    }))
                } else {
                    let nt = num_type(u);
                    gen_e(u, &nt, env, d)
                };
                if u.flip() {
                    E::mcall(src, f, vec![])
                } else {
                    E::call(f, vec![src])
                }
            }
            12 => E::Index(b(gen_e(u, &T::List(Box::new(t.clone())), env, d)), b(gen_index(u, env, d))),
            13 => {
                let kt = gen_key_type(u);
                E::Index(b(gen_e(u, &T::Map(Box::new(kt.clone()), Box::new(t.clone())), env, d)), b(gen_key_query(u, &kt, env, 0)))
            }
            14 => {
                let f = *u.pick(&["max", "min"]);
                let n = 1 + u.below(3);
                if u.flip() {
                    E::call(f, (0..=n).map(|_| gen_e(u, t, env, d)).collect())
                } else {
                    E::call(f, vec![E::List((0..n).map(|_| gen_e(u, t, env, d)).collect())])
                }
            }
            _ => E::Select(b(gen_e(u, &T::Map(Box::new(T::Str), Box::new(t.clone())), env, d)), u.pick(&FIELD_NAMES).to_string()),
        },
        T::Str => match u.below(9) {
            0 | 1 => leaf(u, t, env),
            2 | 3 => E::bin(Op::Add, gen_e(u, &T::Str, env, d), gen_e(u, &T::Str, env, d)),
            4 => E::Cond(b(gen_e(u, &T::Bool, env, d)), b(gen_e(u, t, env, d)), b(gen_e(u, t, env, d))),
            5 => {
                let st = match u.below(4) {
                    0 => T::Int,
                    1 => T::UInt,
                    2 => T::Str,
                    _ => T::Bytes,
                };
                let x = gen_e(u, &st, env, d);
                if u.flip() {
                    E::mcall(x, "string", vec![])
                } else {
                    E::call("string", vec![x])
                }
            }
            6 => E::Index(b(gen_e(u, &T::List(Box::new(T::Str)), env, d)), b(gen_index(u, env, d))),
            7 => {
                let kt = gen_key_type(u);
                E::Index(b(gen_e(u, &T::Map(Box::new(kt.clone()), Box::new(T::Str)), env, d)), b(gen_key_query(u, &kt, env, 0)))
            }
            _ => E::Select(b(gen_e(u, &T::Map(Box::new(T::Str), Box::new(T::Str)), env, d)), u.pick(&FIELD_NAMES).to_string()),
        },
        T::Bytes => match u.below(4) {
            0 | 1 => leaf(u, t, env),
            2 => E::call("bytes", vec![gen_e(u, &T::Str, env, d)]),
            _ => E::Cond(b(gen_e(u, &T::Bool, env, d)), b(gen_e(u, t, env, d)), b(gen_e(u, t, env, d))),
        },
        T::Null => leaf(u, t, env),
        T::List(et) => match u.below(10) {
            0 | 1 => leaf(u, t, env),
            2 | 3 => {
                let n = u.below(4);
                E::List((0..n).map(|_| gen_e(u, et, env, d)).collect())
            }
            4 | 5 => E::bin(Op::Add, gen_e(u, t, env, d), gen_e(u, t, env, d)),
            6 => E::Cond(b(gen_e(u, &T::Bool, env, d)), b(gen_e(u, t, env, d)), b(gen_e(u, t, env, d))),
            7 => {
                // map: source element type is free
                let st = simple_type(u);
                let range = gen_e(u, &T::List(Box::new(st.clone())), env, d);
                let var = u.pick(&env.binders).to_string();
                env.vars.push((var.clone(), st));
                let body = if u.chance(1, 3) { vec![gen_e(u, &T::Bool, env, d), gen_e(u, et, env, d)] } else { vec![gen_e(u, et, env, d)] };
                env.vars.pop();
                E::Macro(Mac::Map, b(range), var, body)
            }
            8 => {
                let key_type = matches!(**et, T::Str | T::Int | T::UInt | T::Bool);
                let range = if key_type && u.chance(1, 4) {
                    // filter over the keys of a map
                    let vt = simple_type(u);
                    gen_e(u, &T::Map(et.clone(), Box::new(vt)), env, d)
                } else {
                    gen_e(u, t, env, d)
                };
                let var = u.pick(&env.binders).to_string();
                env.vars.push((var.clone(), (**et).clone()));
                let body = if u.chance(1, 6) { E::Lit(V::Bool(u.flip())) } else { gen_e(u, &T::Bool, env, d) };
                env.vars.pop();
                E::Macro(Mac::Filter, b(range), var, vec![body])
            }
            _ => E::Index(b(gen_e(u, &T::List(Box::new(t.clone())), env, d)), b(gen_index(u, env, d))),
        },
        T::Map(kt, vt) => match u.below(7) {
            0 | 1 => leaf(u, t, env),
            // a map taken out of a map or a list (gives `has(a.b.c)`, `x.k.k2`, `l[0].k` shapes)
            5 => E::Select(b(gen_e(u, &T::Map(Box::new(T::Str), Box::new(t.clone())), env, d)), u.pick(&FIELD_NAMES).to_string()),
            6 => E::Index(b(gen_e(u, &T::List(Box::new(t.clone())), env, d)), b(gen_index(u, env, d))),
            2 | 3 => {
                let n = u.below(3);
                let mut keys: Vec<V> = vec![];
                let mut es = vec![];
                for _ in 0..n {
                    let k = gen_map_key(u, kt);
                    let clash = keys.iter().any(|k2| crate::model::same(k2, &k) || (crate::model::eval::is_num(k2) && crate::model::eval::num_cmp(k2, &k).unwrap() == Some(std::cmp::Ordering::Equal)));
                    if clash {
                        continue;
                    }
                    keys.push(k.clone());
                    // keys are expressions too: occasionally observe their evaluation
                    let ke = if env.logged && u.chance(1, 3) {
                        env.next_id += 1;
                        E::call("t", vec![E::Lit(V::Int(env.next_id)), E::Lit(k)])
                    } else {
                        E::Lit(k)
                    };
                    es.push((ke, gen_e(u, vt, env, d)));
                }
                E::Map(es)
            }
            _ => E::Cond(b(gen_e(u, &T::Bool, env, d)), b(gen_e(u, t, env, d)), b(gen_e(u, t, env, d))),
        },
    };
    // occasionally replace a subterm by an error raiser of the same type
    let e = if u.chance(1, 40) { gen_raiser(u, t) } else { e };
    wrap_log(e, env, u)
}

fn gen_index(u: &mut Chooser, env: &mut Env, d: usize) -> E {
    match u.below(4) {
        0 => E::Lit(V::Int(u.range(-2, 6))),
        1 => E::Lit(V::Int(*u.pick(&[i64::MIN, i64::MAX, -1, 0, 1, 4294967296]))),
        _ => gen_e(u, &T::Int, env, d.min(1)),
    }
}

#[derive(Clone, Debug, Serialize, Deserialize)]
pub struct TypedCase {
    pub ctx: Vec<Var>,
    pub ty: T,
    pub expr: E,
}

impl TypedCase {
    pub fn vars(&self) -> Vec<(String, V)> {
        self.ctx.iter().map(|v| (v.name.clone(), v.val.clone())).collect()
    }
}

pub fn gen_typed_case(u: &mut Chooser, max_depth: usize, logged: bool) -> TypedCase {
    let ctx = gen_ctx(u);
    let ty = gen_type(u, 1);
    let depth = 1 + u.below(max_depth);
    let mut env = Env::new(&ctx);
    env.logged = logged;
    let expr = gen_e(u, &ty, &mut env, depth);
    TypedCase { ctx, ty, expr }
}
