//! Compile-time guard for C05: a program and a root context may be shared by reference among
//! threads. If any of these types loses `Send` or `Sync`, this crate stops compiling and
//! `./check C05` reports that as a violation (DESIGN §5, C05).
use cel_interpreter::{Context, ExecutionError, Program, Value};

fn shared<T: Send + Sync>() {}

pub fn guard() {
    shared::<Program>();
    shared::<Context<'static>>();
    shared::<Value>();
    shared::<ExecutionError>();
    shared::<&Program>();
    shared::<&Context<'static>>();
}
