#![no_main]
//! Coverage-guided C02: bytes -> choice sequence -> (untyped program, context) -> compile, execute; oracle: no panic.
use libfuzzer_sys::fuzz_target;
use verif::chooser::{bytes_to_choices, Chooser};
use verif::engine::{install_panic_hook, Outcome};
use verif::gen::untyped::{gen_untyped, Pool};
use verif::props::c02::{check_prog, gen_ctx, Prog};

fuzz_target!(|data: &[u8]| {
    static ONCE: std::sync::Once = std::sync::Once::new();
    ONCE.call_once(install_panic_hook);
    let choices = bytes_to_choices(data);
    let mut u = Chooser::new(&choices);
    let pool = Pool::c02();
    let depth = 1 + u.below(7);
    let expr = gen_untyped(&mut u, depth, &pool);
    let ctx = gen_ctx(&mut u);
    let case = Prog { expr, ctx };
    if let Outcome::Fail(m) = check_prog(&case) {
        eprintln!("C02-FUZZ-FAIL {}", serde_json::json!({"family": "untyped-programs", "case": case, "message": m}));
        std::process::abort();
    }
});
