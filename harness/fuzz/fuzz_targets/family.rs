#![no_main]
//! Coverage-guided exploration of any random family of any property: VERIF_FUZZ_PROP / VERIF_FUZZ_FAMILY name it.
//! bytes -> choice sequence -> the family's own generator -> the family's own check (semantic oracle inside the target).
use libfuzzer_sys::fuzz_target;
use std::sync::OnceLock;
use verif::fuzzbridge::{start, Bridge};

static BRIDGE: OnceLock<(Bridge, String)> = OnceLock::new();

fuzz_target!(|data: &[u8]| {
    let (b, prop) = BRIDGE.get_or_init(|| {
        let prop = std::env::var("VERIF_FUZZ_PROP").expect("VERIF_FUZZ_PROP");
        let family = std::env::var("VERIF_FUZZ_FAMILY").expect("VERIF_FUZZ_FAMILY");
        (start(&prop, &family), prop)
    });
    if let Some(line) = b.call(data, false) {
        eprintln!("{prop}-FUZZ-FAIL {line}");
        std::process::abort();
    }
});
