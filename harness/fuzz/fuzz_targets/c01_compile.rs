#![no_main]
//! Coverage-guided C01: bytes -> UTF-8 (lossy) <= 4 KiB with bracket nesting capped at 32 -> the C01 oracle
//! (no panic, Ok xor non-empty positioned errors, character-level "must be rejected" conditions).
use libfuzzer_sys::fuzz_target;
use verif::engine::{install_panic_hook, Outcome};
use verif::props::c01::{check, Case};

fuzz_target!(|data: &[u8]| {
    static ONCE: std::sync::Once = std::sync::Once::new();
    ONCE.call_once(install_panic_hook);
    let mut s = String::from_utf8_lossy(&data[..data.len().min(4096)]).into_owned();
    while s.len() > 4096 {
        s.pop();
    }
    let src = verif::props::c01::cap_nesting(&s);
    let case = Case::Text { family: 0, src };
    if let Outcome::Fail(m) = check(&case) {
        // leave a replayable description next to libFuzzer's raw artifact
        eprintln!("C01-FUZZ-FAIL {}", serde_json::json!({"family": "random-characters", "case": case, "message": m}));
        std::process::abort();
    }
});
